// simgen produces a `go build -overlay` file set that puts every source of nondeterminism of the
// in-scope asherah packages behind the simrt seams. Nothing is written to the repository.
//
// exit 0: overlay written; exit 2: a construct that cannot be instrumented soundly (file:line named).
package main

import (
	"bytes"
	"crypto/sha256"
	"encoding/json"
	"flag"
	"fmt"
	"go/ast"
	"go/format"
	"go/token"
	"go/types"
	"os"
	"path/filepath"
	"sort"
	"strconv"
	"strings"

	"golang.org/x/tools/go/ast/astutil"
	"golang.org/x/tools/go/packages"
)

const (
	pSimrt  = "verif/sim/simrt"
	pSync   = "verif/sim/simrt/ssync"
	pAtomic = "verif/sim/simrt/satomic"
	pTime   = "verif/sim/simrt/stime"
	pRand   = "verif/sim/simrt/srand"
)

var scope = []string{
	"github.com/godaddy/asherah/go/appencryption",
	"github.com/godaddy/asherah/go/appencryption/internal",
	"github.com/godaddy/asherah/go/appencryption/pkg/cache",
	"github.com/godaddy/asherah/go/appencryption/pkg/cache/internal",
	"github.com/godaddy/asherah/go/appencryption/pkg/crypto/aead",
	"github.com/godaddy/asherah/go/appencryption/pkg/persistence",
	"github.com/godaddy/asherah/go/appencryption/pkg/kms",
	"github.com/godaddy/asherah/go/appencryption/plugins/aws-v1/kms",
	"github.com/godaddy/asherah/go/appencryption/plugins/aws-v1/persistence",
	"github.com/godaddy/asherah/go/appencryption/plugins/aws-v2/kms",
	"github.com/godaddy/asherah/go/appencryption/plugins/aws-v2/dynamodb/metastore",
	"github.com/godaddy/asherah/go/securememory",
	"github.com/godaddy/asherah/go/securememory/protectedmemory",
	"github.com/godaddy/asherah/go/securememory/memguard",
	"github.com/godaddy/asherah/go/securememory/internal/memcall",
	"github.com/godaddy/asherah/go/securememory/internal/secrets",
	"github.com/godaddy/asherah/server/go/pkg/server",
}

var allowed = map[string]map[string]bool{
	"sync":        set("Mutex", "RWMutex", "Cond", "NewCond", "Once", "WaitGroup", "Locker", "Pool", "Map"),
	"sync/atomic": set("AddInt32", "AddInt64", "AddUint32", "AddUint64", "AddUintptr", "LoadInt32", "LoadInt64", "LoadUint32", "LoadUint64", "LoadUintptr", "LoadPointer", "StoreInt32", "StoreInt64", "StoreUint32", "StoreUint64", "StoreUintptr", "StorePointer", "SwapInt32", "SwapInt64", "SwapUint32", "SwapUint64", "CompareAndSwapInt32", "CompareAndSwapInt64", "CompareAndSwapUint32", "CompareAndSwapUint64", "Int32", "Int64", "Uint32", "Uint64", "Bool", "Pointer", "Value"),
	"crypto/rand": set("Read", "Reader"),
}

var timeRewrite = set("Now", "Since", "Until", "Sleep", "AfterFunc", "After", "NewTimer", "NewTicker", "Tick", "Timer", "Ticker")
var ctxRewrite = set("WithTimeout", "WithDeadline")

func set(xs ...string) map[string]bool {
	m := map[string]bool{}
	for _, x := range xs {
		m[x] = true
	}
	return m
}

type stats struct {
	File  string         `json:"file"`
	Sites map[string]int `json:"sites"`
}

type hardError struct{ msg string }

func fail(fset *token.FileSet, pos token.Pos, format string, a ...any) {
	panic(hardError{fmt.Sprintf("%s: %s", fset.Position(pos), fmt.Sprintf(format, a...))})
}

func main() {
	simdir := flag.String("simdir", "/verif/sim", "harness module directory (packages are loaded from here)")
	modfile := flag.String("modfile", "", "alternative go.mod for the harness module")
	out := flag.String("out", "", "output directory")
	flag.Parse()
	if *out == "" {
		fmt.Fprintln(os.Stderr, "simgen: -out required")
		os.Exit(2)
	}
	defer func() {
		if r := recover(); r != nil {
			if he, ok := r.(hardError); ok {
				fmt.Fprintln(os.Stderr, "simgen: cannot instrument soundly:", he.msg)
				os.Exit(2)
			}
			panic(r)
		}
	}()
	if err := os.MkdirAll(*out, 0o755); err != nil {
		fmt.Fprintln(os.Stderr, "simgen:", err)
		os.Exit(2)
	}
	cfg := &packages.Config{
		Mode: packages.NeedName | packages.NeedFiles | packages.NeedCompiledGoFiles | packages.NeedSyntax |
			packages.NeedTypes | packages.NeedTypesInfo | packages.NeedImports | packages.NeedModule,
		Dir: *simdir,
		Env: append(os.Environ(), "GOFLAGS=-mod=mod", "GOPROXY=off", "GOSUMDB=off", "GOTOOLCHAIN=local"),
	}
	if *modfile != "" {
		cfg.BuildFlags = []string{"-modfile=" + *modfile}
	}
	pkgs, err := packages.Load(cfg, scope...)
	if err != nil {
		fmt.Fprintln(os.Stderr, "simgen: load:", err)
		os.Exit(2)
	}
	bad := false
	for _, p := range pkgs {
		for _, e := range p.Errors {
			fmt.Fprintln(os.Stderr, "simgen: package error:", e)
			bad = true
		}
	}
	if bad {
		os.Exit(2)
	}
	replace := map[string]string{}
	var all []stats
	sort.Slice(pkgs, func(i, j int) bool { return pkgs[i].PkgPath < pkgs[j].PkgPath })
	pkgDirs := map[string]string{}
	for _, p := range pkgs {
		for i, f := range p.Syntax {
			path := p.CompiledGoFiles[i]
			if strings.HasSuffix(path, "_test.go") {
				continue
			}
			pkgDirs[p.PkgPath] = filepath.Dir(path)
			src, err := os.ReadFile(path)
			if err != nil {
				fmt.Fprintln(os.Stderr, "simgen:", err)
				os.Exit(2)
			}
			st := stats{File: path, Sites: map[string]int{}}
			r := &rewriter{fset: p.Fset, info: p.TypesInfo, file: f, st: st.Sites, need: map[string]string{}}
			r.run()
			var buf bytes.Buffer
			for _, line := range strings.Split(string(src), "\n") {
				t := strings.TrimSpace(line)
				if strings.HasPrefix(t, "//go:build") || strings.HasPrefix(t, "// +build") {
					buf.WriteString(t + "\n")
				}
				if strings.HasPrefix(t, "package ") {
					break
				}
			}
			if buf.Len() > 0 {
				buf.WriteString("\n")
			}
			if bytes.Contains(src, []byte("//go:embed")) || bytes.Contains(src, []byte("import \"C\"")) {
				fail(p.Fset, f.Pos(), "file uses go:embed or cgo")
			}
			f.Comments = nil
			stripDocs(f)
			if err := format.Node(&buf, p.Fset, f); err != nil {
				fmt.Fprintln(os.Stderr, "simgen: print", path, err)
				os.Exit(2)
			}
			sum := sha256.Sum256([]byte(path))
			name := fmt.Sprintf("%x_%s", sum[:6], filepath.Base(path))
			dst := filepath.Join(*out, name)
			if err := os.WriteFile(dst, buf.Bytes(), 0o644); err != nil {
				fmt.Fprintln(os.Stderr, "simgen:", err)
				os.Exit(2)
			}
			replace[path] = dst
			all = append(all, st)
		}
	}
	// added export files (trivial constructors over private fields; they exist only in the overlay)
	for pkg, content := range addedFiles {
		dir, ok := pkgDirs[pkg]
		if !ok {
			fmt.Fprintln(os.Stderr, "simgen: package for added file not loaded:", pkg)
			os.Exit(2)
		}
		dst := filepath.Join(*out, "zz_verif_export_"+filepath.Base(dir)+".go")
		if err := os.WriteFile(dst, []byte(content), 0o644); err != nil {
			fmt.Fprintln(os.Stderr, "simgen:", err)
			os.Exit(2)
		}
		replace[filepath.Join(dir, "zz_verif_export.go")] = dst
		all = append(all, stats{File: filepath.Join(dir, "zz_verif_export.go"), Sites: map[string]int{"added_file": 1}})
	}
	ov, _ := json.MarshalIndent(map[string]any{"Replace": replace}, "", " ")
	if err := os.WriteFile(filepath.Join(*out, "overlay.json"), ov, 0o644); err != nil {
		fmt.Fprintln(os.Stderr, "simgen:", err)
		os.Exit(2)
	}
	sort.Slice(all, func(i, j int) bool { return all[i].File < all[j].File })
	total := map[string]int{}
	for _, s := range all {
		for k, v := range s.Sites {
			total[k] += v
		}
	}
	ins, _ := json.MarshalIndent(map[string]any{"packages": scope, "files": all, "total": total}, "", " ")
	if err := os.WriteFile(filepath.Join(*out, "instrumentation.json"), ins, 0o644); err != nil {
		fmt.Fprintln(os.Stderr, "simgen:", err)
		os.Exit(2)
	}
}

var addedFiles = map[string]string{
	"github.com/godaddy/asherah/go/securememory/protectedmemory": `package protectedmemory

import "github.com/godaddy/asherah/go/securememory/internal/memcall"

// VerifMemcall mirrors the internal memcall interface for the verification harness (overlay only).
type VerifMemcall = memcall.Interface

// VerifFlag mirrors the protection flag type.
type VerifFlag = memcall.MemoryProtectionFlag

// VerifDefaultMemcall returns the real implementation.
func VerifDefaultMemcall() memcall.Interface { return memcall.Default }

// NewSecretFactoryWithMemcall returns a factory using mc (overlay only).
func NewSecretFactoryWithMemcall(mc memcall.Interface) *SecretFactory { return &SecretFactory{mc: mc} }

func VerifNoAccess() VerifFlag  { return memcall.NoAccess() }
func VerifReadOnly() VerifFlag  { return memcall.ReadOnly() }
func VerifReadWrite() VerifFlag { return memcall.ReadWrite() }
`,
	"github.com/godaddy/asherah/go/securememory/memguard": `package memguard

import "github.com/godaddy/asherah/go/securememory/internal/memcall"

// NewSecretFactoryWithMemcall returns a factory using mc (overlay only).
func NewSecretFactoryWithMemcall(mc memcall.Interface) *SecretFactory { return &SecretFactory{mc: mc} }
`,
	"github.com/godaddy/asherah/server/go/pkg/server": `package server

import "github.com/godaddy/asherah/go/appencryption"

// CloseSessionFactory closes the session factory behind a service built by NewAppEncryption (overlay
// only: the service itself offers no way to release it).
func CloseSessionFactory(a *AppEncryption) {
	if c, ok := a.NewStreamer().sessionFactory.(interface{ Close() error }); ok {
		c.Close()
	}
}

// VerifUseDBDriver makes newMysql open its connection through the named database/sql driver and forget
// the connection it cached (overlay only).
func VerifUseDBDriver(name string) {
	dbdriver = name
	dbconnection = nil
}

// NewAppEncryptionWithFactory builds the sidecar service over an existing session factory (overlay only).
func NewAppEncryptionWithFactory(sf *appencryption.SessionFactory) *AppEncryption {
	return &AppEncryption{
		streamerFactory: streamerFactoryFunc(func() *streamer {
			return &streamer{sessionFactory: sf}
		}),
	}
}
`,
}

func stripDocs(f *ast.File) {
	f.Doc = nil
	ast.Inspect(f, func(n ast.Node) bool {
		switch x := n.(type) {
		case *ast.GenDecl:
			x.Doc = nil
		case *ast.FuncDecl:
			x.Doc = nil
		case *ast.Field:
			x.Doc, x.Comment = nil, nil
		case *ast.TypeSpec:
			x.Doc, x.Comment = nil, nil
		case *ast.ValueSpec:
			x.Doc, x.Comment = nil, nil
		case *ast.ImportSpec:
			x.Doc, x.Comment = nil, nil
		}
		return true
	})
}

type rewriter struct {
	ctxRewritten, usesCtx bool
	fset                  *token.FileSet
	info                  *types.Info
	file                  *ast.File
	st                    map[string]int
	need                  map[string]string // import path -> name
	tmp                   int
}

func (r *rewriter) pkgOf(e ast.Expr) string {
	id, ok := e.(*ast.Ident)
	if !ok {
		return ""
	}
	if pn, ok := r.info.Uses[id].(*types.PkgName); ok {
		return pn.Imported().Path()
	}
	return ""
}

func (r *rewriter) name(prefix string) string {
	r.tmp++
	return "_sim" + prefix + strconv.Itoa(r.tmp)
}

func (r *rewriter) simrtCall(fn string, args ...ast.Expr) *ast.CallExpr {
	r.need[pSimrt] = "simrt"
	return &ast.CallExpr{Fun: &ast.SelectorExpr{X: ast.NewIdent("simrt"), Sel: ast.NewIdent(fn)}, Args: args}
}

func (r *rewriter) isChan(e ast.Expr) bool {
	t := r.info.TypeOf(e)
	if t == nil {
		return false
	}
	_, ok := t.Underlying().(*types.Chan)
	if ok {
		return true
	}
	// type parameter whose core type is a channel
	if tp, ok := t.(*types.TypeParam); ok {
		if _, ok := tp.Constraint().Underlying().(*types.Interface); ok {
			fail(r.fset, e.Pos(), "channel operation through a type parameter")
		}
	}
	return false
}

func (r *rewriter) run() {
	f := r.file
	usesTime := false
	usesRuntime := false
	// 1. validate and rewrite selector uses
	astutil.Apply(f, func(c *astutil.Cursor) bool {
		switch n := c.Node().(type) {
		case *ast.LabeledStmt:
			if _, ok := n.Stmt.(*ast.SelectStmt); ok {
				fail(r.fset, n.Pos(), "labeled select statement")
			}
		case *ast.SelectorExpr:
			switch p := r.pkgOf(n.X); p {
			case "sync", "sync/atomic", "crypto/rand":
				if !allowed[p][n.Sel.Name] {
					fail(r.fset, n.Pos(), "%s.%s has no simulated counterpart", p, n.Sel.Name)
				}
				r.st[p]++
			case "context":
				if ctxRewrite[n.Sel.Name] {
					n.X = ast.NewIdent("stime")
					r.need[pTime] = "stime"
					r.st["context."+n.Sel.Name]++
					r.ctxRewritten = true
				} else {
					r.usesCtx = true
				}
			case "time":
				if timeRewrite[n.Sel.Name] {
					n.X = ast.NewIdent("stime")
					r.need[pTime] = "stime"
					r.st["time."+n.Sel.Name]++
				} else {
					usesTime = true
				}
			case "runtime":
				if n.Sel.Name == "SetFinalizer" {
					n.X = ast.NewIdent("simrt")
					r.need[pSimrt] = "simrt"
					r.st["runtime.SetFinalizer"]++
				} else {
					usesRuntime = true
				}
			}
		}
		return true
	}, nil)

	// 1b. variables declared outside a goroutine literal and assigned inside it: every plain
	// assignment to one of them, anywhere in the file, is reported to the happens-before layer
	shared := map[types.Object]bool{}
	ast.Inspect(f, func(n ast.Node) bool {
		g, ok := n.(*ast.GoStmt)
		if !ok {
			return true
		}
		lit, ok := g.Call.Fun.(*ast.FuncLit)
		if !ok {
			return true
		}
		mark := func(e ast.Expr) {
			id, ok := e.(*ast.Ident)
			if !ok || id.Name == "_" {
				return
			}
			v, ok := r.info.Uses[id].(*types.Var)
			if !ok || v.IsField() {
				return
			}
			if v.Pos() >= lit.Pos() && v.Pos() < lit.End() {
				return
			}
			shared[v] = true
		}
		ast.Inspect(lit.Body, func(m ast.Node) bool {
			switch s := m.(type) {
			case *ast.AssignStmt:
				if s.Tok != token.DEFINE {
					for _, l := range s.Lhs {
						mark(l)
					}
				}
			case *ast.IncDecStmt:
				mark(s.X)
			}
			return true
		})
		return true
	})
	sharedWrites := func(lhs []ast.Expr) []ast.Stmt {
		var out []ast.Stmt
		for _, l := range lhs {
			if id, ok := l.(*ast.Ident); ok {
				if v, ok := r.info.Uses[id].(*types.Var); ok && shared[v] {
					out = append(out, &ast.ExprStmt{X: r.simrtCall("VarW", &ast.UnaryExpr{Op: token.AND, X: ast.NewIdent(id.Name)})})
					r.st["shared-var.write"]++
				}
			}
		}
		return out
	}

	// 2. statements and expressions (post-order so that inner nodes are rewritten first)
	astutil.Apply(f, nil, func(c *astutil.Cursor) bool {
		switch n := c.Node().(type) {
		case *ast.AssignStmt:
			if n.Tok != token.DEFINE && c.Index() >= 0 && len(shared) > 0 {
				if pre := sharedWrites(n.Lhs); len(pre) > 0 {
					c.Replace(&ast.BlockStmt{List: append(pre, n)})
				}
			}
		case *ast.IncDecStmt:
			if c.Index() >= 0 && len(shared) > 0 {
				if pre := sharedWrites([]ast.Expr{n.X}); len(pre) > 0 {
					c.Replace(&ast.BlockStmt{List: append(pre, n)})
				}
			}
		case *ast.GoStmt:
			c.Replace(r.rewriteGo(n))
			r.st["go"]++
		case *ast.SelectStmt:
			c.Replace(r.rewriteSelect(n))
			r.st["select"]++
		case *ast.SendStmt:
			c.Replace(&ast.ExprStmt{X: r.simrtCall("ChanSend", n.Chan, n.Value)})
			r.st["chan.send"]++
		case *ast.UnaryExpr:
			if n.Op == token.ARROW {
				fn := "ChanRecv"
				switch p := c.Parent().(type) {
				case *ast.AssignStmt:
					if len(p.Lhs) == 2 && len(p.Rhs) == 1 && p.Rhs[0] == n {
						fn = "ChanRecv2"
					}
				case *ast.ValueSpec:
					if len(p.Names) == 2 && len(p.Values) == 1 && p.Values[0] == n {
						fn = "ChanRecv2"
					}
				}
				c.Replace(r.simrtCall(fn, n.X))
				r.st["chan.recv"]++
			}
		case *ast.IndexExpr:
			// every access to a built-in map goes through simrt.MapR / MapW (happens-before checking)
			if tv, ok := r.info.Types[n.X]; ok && tv.IsValue() {
				if _, ok := tv.Type.Underlying().(*types.Map); ok {
					fn := "MapR"
					switch p := c.Parent().(type) {
					case *ast.AssignStmt:
						if c.Name() == "Lhs" {
							fn = "MapW"
						}
						_ = p
					case *ast.IncDecStmt:
						fn = "MapW"
					}
					n.X = r.simrtCall(fn, n.X)
					r.st["map."+fn]++
				}
			}
		case *ast.CallExpr:
			if id, ok := n.Fun.(*ast.Ident); ok {
				if b, ok := r.info.Uses[id].(*types.Builtin); ok {
					switch b.Name() {
					case "delete", "clear":
						if len(n.Args) >= 1 {
							if t := r.info.TypeOf(n.Args[0]); t != nil {
								if _, ok := t.Underlying().(*types.Map); ok {
									n.Args[0] = r.simrtCall("MapW", n.Args[0])
									r.st["map.MapW"]++
								}
							}
						}
					case "close":
						c.Replace(r.simrtCall("ChanClose", n.Args[0]))
						r.st["chan.close"]++
					case "len":
						if len(n.Args) == 1 && r.isChan(n.Args[0]) {
							c.Replace(r.simrtCall("ChanLen", n.Args[0]))
							r.st["chan.len"]++
						}
					}
				}
			}
		case *ast.RangeStmt:
			t := r.info.TypeOf(n.X)
			if t == nil {
				return true
			}
			switch u := t.Underlying().(type) {
			case *types.Chan:
				c.Replace(r.rewriteRangeChan(n))
				r.st["chan.range"]++
			case *types.Map:
				c.Replace(r.rewriteRangeMap(n, u))
				r.st["map.range"]++
			}
		}
		return true
	})

	// 3. imports
	for _, im := range f.Imports {
		p, _ := strconv.Unquote(im.Path.Value)
		var np, nm string
		switch p {
		case "sync":
			np, nm = pSync, "sync"
		case "sync/atomic":
			np, nm = pAtomic, "atomic"
		case "crypto/rand":
			np, nm = pRand, "rand"
		default:
			continue
		}
		im.Path.Value = strconv.Quote(np)
		if im.Name == nil {
			im.Name = ast.NewIdent(nm)
		}
	}
	paths := make([]string, 0, len(r.need))
	for p := range r.need {
		paths = append(paths, p)
	}
	sort.Strings(paths)
	for _, p := range paths {
		addImport(f, r.need[p], p)
	}
	// keep "time" imported even when every use was rewritten
	importsTime := false
	for _, im := range f.Imports {
		if im.Path.Value == `"time"` {
			importsTime = true
		}
		if im.Path.Value == `"runtime"` && !usesRuntime {
			f.Decls = append(f.Decls, &ast.GenDecl{Tok: token.VAR, Specs: []ast.Spec{&ast.ValueSpec{
				Names:  []*ast.Ident{ast.NewIdent("_")},
				Values: []ast.Expr{&ast.SelectorExpr{X: ast.NewIdent("runtime"), Sel: ast.NewIdent("GOOS")}},
			}}})
		}
	}
	if r.ctxRewritten && !r.usesCtx {
		f.Decls = append(f.Decls, &ast.GenDecl{Tok: token.VAR, Specs: []ast.Spec{&ast.ValueSpec{
			Names: []*ast.Ident{ast.NewIdent("_")},
			Type:  &ast.SelectorExpr{X: ast.NewIdent("context"), Sel: ast.NewIdent("Context")},
		}}})
	}
	if importsTime && !usesTime {
		f.Decls = append(f.Decls, &ast.GenDecl{Tok: token.VAR, Specs: []ast.Spec{&ast.ValueSpec{
			Names: []*ast.Ident{ast.NewIdent("_")},
			Type:  &ast.SelectorExpr{X: ast.NewIdent("time"), Sel: ast.NewIdent("Duration")},
		}}})
	}
}

func addImport(f *ast.File, name, path string) {
	spec := &ast.ImportSpec{Name: ast.NewIdent(name), Path: &ast.BasicLit{Kind: token.STRING, Value: strconv.Quote(path)}}
	decl := &ast.GenDecl{Tok: token.IMPORT, Specs: []ast.Spec{spec}}
	f.Decls = append([]ast.Decl{decl}, f.Decls...)
	f.Imports = append(f.Imports, spec)
}

// go F(a, b) => { f := F; x1 := a; x2 := b; simrt.GoFunc(func() { f(x1, x2) }) }
// (function value and arguments are evaluated at the go statement, as the language requires)
func (r *rewriter) rewriteGo(g *ast.GoStmt) ast.Stmt {
	call := g.Call
	var stmts []ast.Stmt
	fn := r.name("f")
	stmts = append(stmts, &ast.AssignStmt{Lhs: []ast.Expr{ast.NewIdent(fn)}, Tok: token.DEFINE, Rhs: []ast.Expr{call.Fun}})
	var args []ast.Expr
	for _, a := range call.Args {
		an := r.name("a")
		var rhs ast.Expr = a
		stmts = append(stmts, &ast.AssignStmt{Lhs: []ast.Expr{ast.NewIdent(an)}, Tok: token.DEFINE, Rhs: []ast.Expr{rhs}})
		args = append(args, ast.NewIdent(an))
	}
	inner := &ast.CallExpr{Fun: ast.NewIdent(fn), Args: args}
	if call.Ellipsis.IsValid() {
		inner.Ellipsis = 1
	}
	lit := &ast.FuncLit{Type: &ast.FuncType{Params: &ast.FieldList{}}, Body: &ast.BlockStmt{List: []ast.Stmt{&ast.ExprStmt{X: inner}}}}
	stmts = append(stmts, &ast.ExprStmt{X: r.simrtCall("GoFunc", lit)})
	return &ast.BlockStmt{List: stmts}
}

// select { case v := <-a: A; case b <- x: B; default: D } =>
//
//	{ c1 := a; c2 := b; v2 := x
//	  sel := simrt.Select(true, simrt.SelRecv(c1), simrt.SelSend(c2, v2))
//	  switch sel.I { case 0: v := simrt.SelGot(c1, sel); A; case 1: B; default: D } }
//
// The communication clauses arrive here already rewritten (post-order), i.e. as calls of
// simrt.ChanSend / ChanRecv / ChanRecv2, from which channel and value expressions are taken back.
func (r *rewriter) rewriteSelect(n *ast.SelectStmt) ast.Stmt {
	var pre []ast.Stmt
	var cases []ast.Expr
	var clauses []ast.Stmt
	sel := r.name("sel")
	hasDefault := false
	simCall := func(e ast.Expr) (string, []ast.Expr) {
		for {
			p, ok := e.(*ast.ParenExpr)
			if !ok {
				break
			}
			e = p.X
		}
		call, ok := e.(*ast.CallExpr)
		if !ok {
			return "", nil
		}
		se, ok := call.Fun.(*ast.SelectorExpr)
		if !ok {
			return "", nil
		}
		if id, ok := se.X.(*ast.Ident); !ok || id.Name != "simrt" {
			return "", nil
		}
		return se.Sel.Name, call.Args
	}
	idx := 0
	for _, st := range n.Body.List {
		cc := st.(*ast.CommClause)
		if cc.Comm == nil {
			hasDefault = true
			clauses = append(clauses, &ast.CaseClause{Body: cc.Body})
			continue
		}
		var head []ast.Stmt
		switch comm := cc.Comm.(type) {
		case *ast.ExprStmt:
			fn, args := simCall(comm.X)
			cn := r.name("c")
			switch fn {
			case "ChanSend":
				// channel and value are evaluated on entry, in clause order, as call arguments
				cases = append(cases, r.simrtCall("SelSend", args[0], args[1]))
			case "ChanRecv":
				pre = append(pre, &ast.AssignStmt{Lhs: []ast.Expr{ast.NewIdent(cn)}, Tok: token.DEFINE, Rhs: []ast.Expr{args[0]}})
				cases = append(cases, r.simrtCall("SelRecv", ast.NewIdent(cn)))
			default:
				fail(r.fset, cc.Pos(), "select clause of an unexpected shape")
			}
		case *ast.AssignStmt:
			if len(comm.Rhs) != 1 {
				fail(r.fset, cc.Pos(), "select clause of an unexpected shape")
			}
			fn, args := simCall(comm.Rhs[0])
			if fn != "ChanRecv" && fn != "ChanRecv2" {
				fail(r.fset, cc.Pos(), "select clause of an unexpected shape")
			}
			cn := r.name("c")
			pre = append(pre, &ast.AssignStmt{Lhs: []ast.Expr{ast.NewIdent(cn)}, Tok: token.DEFINE, Rhs: []ast.Expr{args[0]}})
			cases = append(cases, r.simrtCall("SelRecv", ast.NewIdent(cn)))
			got := "SelGot"
			if len(comm.Lhs) == 2 {
				got = "SelGot2"
			}
			head = append(head, &ast.AssignStmt{Lhs: comm.Lhs, Tok: comm.Tok, Rhs: []ast.Expr{r.simrtCall(got, ast.NewIdent(cn), ast.NewIdent(sel))}})
			if comm.Tok == token.DEFINE {
				// a variable declared by the clause may be unused in its body
				for _, l := range comm.Lhs {
					if id, ok := l.(*ast.Ident); ok && id.Name != "_" {
						head = append(head, &ast.AssignStmt{Lhs: []ast.Expr{ast.NewIdent("_")}, Tok: token.ASSIGN, Rhs: []ast.Expr{ast.NewIdent(id.Name)}})
					}
				}
			}
		default:
			fail(r.fset, cc.Pos(), "select clause of an unexpected shape")
		}
		clauses = append(clauses, &ast.CaseClause{List: []ast.Expr{&ast.BasicLit{Kind: token.INT, Value: strconv.Itoa(idx)}}, Body: append(head, cc.Body...)})
		idx++
	}
	def := "false"
	if hasDefault {
		def = "true"
	} else {
		// keeps the statement terminating when every clause is (a select without default always
		// proceeds with one of its clauses)
		clauses = append(clauses, &ast.CaseClause{Body: []ast.Stmt{&ast.ExprStmt{X: &ast.CallExpr{Fun: ast.NewIdent("panic"), Args: []ast.Expr{&ast.BasicLit{Kind: token.STRING, Value: `"simrt: select proceeded with no clause"`}}}}}})
	}
	args := append([]ast.Expr{ast.NewIdent(def)}, cases...)
	stmts := append(pre, &ast.AssignStmt{Lhs: []ast.Expr{ast.NewIdent(sel)}, Tok: token.DEFINE, Rhs: []ast.Expr{r.simrtCall("Select", args...)}})
	stmts = append(stmts, &ast.SwitchStmt{Tag: &ast.SelectorExpr{X: ast.NewIdent(sel), Sel: ast.NewIdent("I")}, Body: &ast.BlockStmt{List: clauses}})
	return &ast.BlockStmt{List: stmts}
}

// for v := range ch { body } => for c := ch; ; { v, ok := simrt.ChanRecv2(c); if !ok { break }; body }
func (r *rewriter) rewriteRangeChan(n *ast.RangeStmt) ast.Stmt {
	cn := r.name("ch")
	ok := r.name("ok")
	var lhs ast.Expr = ast.NewIdent("_")
	tok := token.DEFINE
	if n.Key != nil {
		lhs = n.Key
		if n.Tok == token.ASSIGN {
			tok = token.ASSIGN
		}
	}
	var pre []ast.Stmt
	if tok == token.ASSIGN {
		pre = append(pre, &ast.DeclStmt{Decl: &ast.GenDecl{Tok: token.VAR, Specs: []ast.Spec{&ast.ValueSpec{Names: []*ast.Ident{ast.NewIdent(ok)}, Type: ast.NewIdent("bool")}}}})
	}
	recv := &ast.AssignStmt{Lhs: []ast.Expr{lhs, ast.NewIdent(ok)}, Tok: tok, Rhs: []ast.Expr{r.simrtCall("ChanRecv2", ast.NewIdent(cn))}}
	brk := &ast.IfStmt{Cond: &ast.UnaryExpr{Op: token.NOT, X: ast.NewIdent(ok)}, Body: &ast.BlockStmt{List: []ast.Stmt{&ast.BranchStmt{Tok: token.BREAK}}}}
	body := append(pre, recv, brk)
	body = append(body, n.Body.List...)
	return &ast.ForStmt{
		Init: &ast.AssignStmt{Lhs: []ast.Expr{ast.NewIdent(cn)}, Tok: token.DEFINE, Rhs: []ast.Expr{n.X}},
		Body: &ast.BlockStmt{List: body},
	}
}

// for k, v := range m { body } => for _, e := range simrt.SortedEntries(m) { k, v := e.K, e.V; body }
func (r *rewriter) rewriteRangeMap(n *ast.RangeStmt, m *types.Map) ast.Stmt {
	fn := "SortedEntries"
	if b, ok := m.Key().Underlying().(*types.Basic); !ok || b.Info()&(types.IsOrdered) == 0 {
		// no order on the key type itself (a type parameter, a struct): ordered by printed form
		fn = "SortedEntriesAny"
	}
	en := r.name("e")
	var lhs, rhs []ast.Expr
	blank := func(e ast.Expr) bool {
		if e == nil {
			return true
		}
		id, ok := e.(*ast.Ident)
		return ok && id.Name == "_"
	}
	if !blank(n.Key) {
		lhs = append(lhs, n.Key)
		rhs = append(rhs, &ast.SelectorExpr{X: ast.NewIdent(en), Sel: ast.NewIdent("K")})
	}
	if !blank(n.Value) {
		lhs = append(lhs, n.Value)
		rhs = append(rhs, &ast.SelectorExpr{X: ast.NewIdent(en), Sel: ast.NewIdent("V")})
	}
	body := []ast.Stmt{}
	var key ast.Expr = ast.NewIdent("_")
	if len(lhs) > 0 {
		tok := token.DEFINE
		if n.Tok == token.ASSIGN {
			tok = token.ASSIGN
		}
		body = append(body, &ast.AssignStmt{Lhs: lhs, Tok: tok, Rhs: rhs})
	}
	var val ast.Expr
	if len(lhs) > 0 {
		val = ast.NewIdent(en)
	}
	body = append(body, n.Body.List...)
	rs := &ast.RangeStmt{Key: key, Value: val, Tok: token.DEFINE, X: r.simrtCall(fn, n.X), Body: &ast.BlockStmt{List: body}}
	if val == nil {
		rs.Key, rs.Tok = nil, token.ILLEGAL
	}
	return rs
}
