// verif is the driver: it runs simulated executions of one property in worker processes (one
// simulation per OS process at a time), minimises and replays violations and writes the evidence.
package main

import (
	"encoding/json"
	"flag"
	"fmt"
	"io"
	stdlog "log"
	"os"
	"os/exec"
	"path/filepath"
	"runtime"
	"runtime/debug"
	"runtime/metrics"
	"runtime/pprof"
	"sort"
	"strconv"
	"strings"
	"sync"
	"sync/atomic"
	"syscall"
	"time"

	"verif/sim/props"
	"verif/sim/simrt"
	"verif/sim/world"
)

func main() {
	stdlog.SetOutput(io.Discard)
	if len(os.Args) < 2 {
		fmt.Fprintln(os.Stderr, "usage: verif check|worker|replay|list ...")
		os.Exit(2)
	}
	switch os.Args[1] {
	case "check":
		os.Exit(cmdCheck(os.Args[2:]))
	case "worker":
		os.Exit(cmdWorker(os.Args[2:]))
	case "replay":
		os.Exit(cmdReplay(os.Args[2:]))
	case "hashes":
		os.Exit(cmdHashes(os.Args[2:]))
	case "list":
		for _, id := range props.IDs() {
			fmt.Println(id)
		}
	default:
		fmt.Fprintln(os.Stderr, "unknown subcommand", os.Args[1])
		os.Exit(2)
	}
}

// ---------------------------------------------------------------------------------------------

func propHash(id string) uint64 {
	var h uint64 = 1469598103934665603
	for i := 0; i < len(id); i++ {
		h = (h ^ uint64(id[i])) * 1099511628211
	}
	return h
}

func runSeed(verifSeed uint64, prop string, i int) uint64 {
	return simrt.SplitMix64(verifSeed*0x9E3779B97F4A7C15 ^ propHash(prop) ^ simrt.SplitMix64(uint64(i)+1))
}

// ReplayFile is the self-contained description of one failing execution.
type ReplayFile struct {
	Property  string          `json:"property"`
	VerifSeed uint64          `json:"verif_seed"`
	RunIndex  int             `json:"run_index"`
	RunSeed   uint64          `json:"run_seed"`
	Tier      string          `json:"tier"`
	TreeHash  string          `json:"tree_hash"`
	Tape      []uint32        `json:"tape"`
	Violation world.Violation `json:"violation"`
	LogHash   string          `json:"event_log_hash"`
	Decoded   []string        `json:"decoded,omitempty"`
	OrigTape  int             `json:"original_tape_length"`
	// History is set when the violation depends on state the code under test keeps across runs of one
	// process (package-level pools, caches): the replay is then the worker's whole run sequence.
	History *RunHistory `json:"history,omitempty"`
	// HistoryIfNeeded: the worker's run sequence, kept in every replay file. A violation that the
	// worker could reproduce from its own tape - in a process that earlier runs had already left
	// their mark on - but that a fresh process cannot, is upgraded to a run-history replay on the
	// first replay (the file is rewritten with History set and replayed again in a fresh process).
	HistoryIfNeeded *RunHistory `json:"history_if_needed,omitempty"`
}

// RunHistory identifies the sequence of runs a worker executed before (and including) the failing one.
type RunHistory struct {
	Start  int `json:"start"`
	Index  int `json:"index"`
	Stride int `json:"stride"`
}

// WorkerSummary is what one worker reports.
type WorkerSummary struct {
	Runs          int              `json:"runs"`
	SweepRuns     int              `json:"sweep_runs"`
	SweepTotal    int              `json:"sweep_total"`
	Ops           int              `json:"ops"`
	Steps         int              `json:"steps"`
	Switches      int              `json:"switches"`
	MapAcc        int              `json:"map_accesses"`
	SimTimeNs     int64            `json:"sim_time_ns"`
	Faults        map[string]int   `json:"faults"`
	Probes        map[string]int   `json:"probes"`
	Oracle        map[string]int   `json:"oracle"`
	Classes       []string         `json:"classes"`
	Traces        []uint64         `json:"traces"`
	Pairs         []string         `json:"pairs"`
	Nontrivial    int              `json:"nontrivial"`
	Infra         int              `json:"infra"`
	HarnessPanics int              `json:"harness_panics"`
	InfraMsgs     []string         `json:"infra_msgs"`
	Samples       []any            `json:"samples"`
	Seeds         []uint64         `json:"seeds"`
	Violations    []FoundViolation `json:"violations"`
	WallS         float64          `json:"wall_s"`
}

// FoundViolation is a violation with its replay file.
type FoundViolation struct {
	Violation world.Violation `json:"violation"`
	Replay    string          `json:"replay"`
	Known     bool            `json:"known"`
	Count     int             `json:"count"`
}

type knownFindings struct {
	Findings []struct {
		Property  string `json:"property"`
		Signature string `json:"signature"`
		What      string `json:"what"`
		Replay    string `json:"replay"`
	} `json:"findings"`
	Fixed []struct {
		Property  string `json:"property"`
		Commit    string `json:"commit"`
		Signature string `json:"signature"`
		What      string `json:"what"`
	} `json:"fixed"`
}

func loadKnown(verifDir string) knownFindings {
	var k knownFindings
	b, err := os.ReadFile(filepath.Join(verifDir, "known_findings.json"))
	if err == nil {
		if err := json.Unmarshal(b, &k); err != nil {
			fmt.Fprintln(os.Stderr, "verif: known_findings.json does not parse:", err)
			os.Exit(2)
		}
	}
	return k
}

func (k knownFindings) match(prop, sig string) (string, bool) {
	for _, f := range k.Findings {
		if f.Property != prop {
			continue
		}
		if f.Signature == sig {
			return f.What, true
		}
	}
	return "", false
}

// ---------------------------------------------------------------------------------------------
// worker

var (
	curRun   atomic.Int64
	curStart atomic.Int64
)

// startWatchdog ends the process with exit 2 when a single simulated run (including the replays
// done while minimising) takes more than 90 s of wall time.
// heapBytes is the live-plus-garbage size of the Go heap (the collector is off during a run and runs
// between runs: every 64 runs, or earlier when runs with large payloads have piled garbage up).
func heapBytes() uint64 {
	sample := []metrics.Sample{{Name: "/memory/classes/heap/objects:bytes"}}
	metrics.Read(sample)
	if sample[0].Value.Kind() == metrics.KindUint64 {
		return sample[0].Value.Uint64()
	}
	return 0
}

func startWatchdog(prop string) {
	go func() {
		for {
			time.Sleep(time.Second)
			st := curStart.Load()
			if st == 0 {
				continue
			}
			// a run is given up after 90 s of this process's own CPU time since it started, or after
			// 10 minutes of wall time (a machine under memory or CPU pressure can stall a healthy run
			// for a long while; that is not a hang)
			if cpu := processCPU() - curCPU.Load(); cpu > int64(90*time.Second) || time.Since(time.Unix(0, st)) > 10*time.Minute {
				fmt.Fprintf(os.Stderr, "verif: watchdog: run index %d of %s has used %v of CPU time in %v of wall time; goroutines:\n", curRun.Load(), prop, time.Duration(cpu).Round(time.Second), time.Since(time.Unix(0, st)).Round(time.Second))
				pprof.Lookup("goroutine").WriteTo(os.Stderr, 1)
				os.Exit(2)
			}
		}
	}()
}

// processCPU is the CPU time (user + system) this process has consumed, in nanoseconds.
func processCPU() int64 {
	var ru syscall.Rusage
	if syscall.Getrusage(syscall.RUSAGE_SELF, &ru) != nil {
		return 0
	}
	return ru.Utime.Nano() + ru.Stime.Nano()
}

var curCPU atomic.Int64

func execRun(p *props.Property, tape *simrt.Tape, o props.Opts) (out props.Outcome) {
	curCPU.Store(processCPU())
	curStart.Store(time.Now().UnixNano())
	defer curStart.Store(0)
	defer func() {
		if r := recover(); r != nil {
			out.Infra = &simrt.Failure{Kind: simrt.FailHarness, Msg: fmt.Sprint(r), Stack: string(debug.Stack())}
		}
	}()
	return p.Run(tape, o)
}

func cmdWorker(args []string) int {
	fs := flag.NewFlagSet("worker", flag.ExitOnError)
	propID := fs.String("prop", "", "")
	tier := fs.String("tier", "quick", "")
	seed := fs.Uint64("seed", 1, "")
	index := fs.Int("index", 0, "")
	stride := fs.Int("stride", 1, "")
	budget := fs.Duration("budget", 20*time.Second, "")
	maxRuns := fs.Int("maxruns", 0, "")
	startAt := fs.Int("start", 0, "")
	outPath := fs.String("out", "", "")
	verifDir := fs.String("verif", "/verif", "")
	treeHash := fs.String("tree", "", "")
	fs.Parse(args)
	p := props.Registry[*propID]
	if p == nil {
		fmt.Fprintln(os.Stderr, "unknown property", *propID)
		return 2
	}
	debug.SetGCPercent(-1)
	// guard rails: no memory limit exists in the sandbox, and a run that neither finishes nor hits the
	// simulator's step budget must not hang the check - both end the worker with exit 2 (harness trouble)
	var lim syscall.Rlimit
	lim.Cur, lim.Max = 12<<30, 12<<30
	syscall.Setrlimit(syscall.RLIMIT_AS, &lim)
	startWatchdog(*propID)
	known := loadKnown(*verifDir)
	start := time.Now()
	sum := WorkerSummary{Faults: map[string]int{}, Probes: map[string]int{}, Oracle: map[string]int{}}
	classes := map[string]bool{}
	traces := map[uint64]bool{}
	pairs := map[string]bool{}
	knownSeen := map[string]*FoundViolation{}
	var sweep [][]uint32
	if p.Sweep != nil {
		sweep = p.Sweep(*tier)
	}
	sum.SweepTotal = len(sweep)
	opts := props.Opts{Tier: *tier}
	hardStop := start.Add(*budget * 4)
	workerHistory = RunHistory{Start: *startAt, Index: *index, Stride: *stride}
	for i := *startAt + *index; ; i += *stride {
		isSweep := i < len(sweep)
		if !isSweep && time.Since(start) > *budget {
			break
		}
		if isSweep && time.Now().After(hardStop) {
			sum.Infra++
			sum.InfraMsgs = append(sum.InfraMsgs, "sweep did not finish within 4x budget")
			break
		}
		if *maxRuns > 0 && sum.Runs >= *maxRuns {
			break
		}
		rs := runSeed(*seed, p.ID, i)
		var tape *simrt.Tape
		if isSweep {
			tape = simrt.PrefixTape(rs, sweep[i])
			sum.SweepRuns++
		} else {
			tape = simrt.NewTape(rs)
		}
		curRun.Store(int64(i))
		out := execRun(p, tape, opts)
		sum.Runs++
		if sum.Runs%64 == 0 || (sum.Runs%4 == 0 && heapBytes() > 512<<20) {
			runtime.GC()
		}
		if len(sum.Seeds) < 8 {
			sum.Seeds = append(sum.Seeds, rs)
		}
		sum.Ops += out.Stats.Ops
		sum.Steps += out.Stats.Steps
		sum.Switches += out.Stats.Switches
		sum.MapAcc += out.Stats.MapAcc
		sum.SimTimeNs += int64(out.Stats.SimTime)
		for k, v := range out.Stats.Faults {
			sum.Faults[k] += v
		}
		for k, v := range out.Stats.Probes {
			sum.Probes[k] += v
		}
		for k, v := range out.Stats.Oracle {
			sum.Oracle[k] += v
		}
		if out.Stats.Nontrivial {
			sum.Nontrivial++
			if len(classes) < 20000 {
				classes[out.Stats.Class] = true
			}
		}
		if len(traces) < 200000 {
			traces[out.Stats.TraceHash] = true
		}
		for _, pr := range out.Stats.Pairs {
			pairs[pr] = true
		}
		if out.Stats.Sample != nil && len(sum.Samples) < 2 && (out.Stats.Nontrivial || sum.Runs > 50) {
			sum.Samples = append(sum.Samples, out.Stats.Sample)
		}
		if out.Infra != nil {
			if out.Infra.Kind == simrt.FailHarness {
				sum.HarnessPanics++
			}
			sum.Infra++
			if len(sum.InfraMsgs) < 5 {
				sum.InfraMsgs = append(sum.InfraMsgs, fmt.Sprintf("run %d seed %d: %s: %s\n%s", i, rs, out.Infra.Kind, out.Infra.Msg, out.Infra.Stack))
			}
		}
		stop := false
		for _, v := range out.Viols {
			if _, ok := known.match(p.ID, v.Signature); ok {
				if kv := knownSeen[v.Signature]; kv != nil {
					kv.Count++
					continue
				}
				fv := &FoundViolation{Violation: v, Known: true, Count: 1}
				fv.Replay = minimiseAndWrite(p, tape.Used(), v, opts, *verifDir, *seed, i, rs, *treeHash, 150)
				knownSeen[v.Signature] = fv
				continue
			}
			fv := FoundViolation{Violation: v, Count: 1}
			fv.Replay = minimiseAndWrite(p, tape.Used(), v, opts, *verifDir, *seed, i, rs, *treeHash, 1500)
			sum.Violations = append(sum.Violations, fv)
			stop = true
			break
		}
		if stop {
			break
		}
	}
	for _, kv := range knownSeen {
		sum.Violations = append(sum.Violations, *kv)
	}
	for c := range classes {
		sum.Classes = append(sum.Classes, c)
	}
	sort.Strings(sum.Classes)
	for h := range traces {
		sum.Traces = append(sum.Traces, h)
	}
	for pr := range pairs {
		sum.Pairs = append(sum.Pairs, pr)
	}
	sum.WallS = time.Since(start).Seconds()
	b, _ := json.Marshal(sum)
	if *outPath == "" {
		os.Stdout.Write(b)
		return 0
	}
	if err := os.WriteFile(*outPath, b, 0o644); err != nil {
		fmt.Fprintln(os.Stderr, err)
		return 2
	}
	return 0
}

// replayOnce replays a tape and reports whether the violation with signature sig recurs.
func replayOnce(p *props.Property, vals []uint32, sig string, o props.Opts) (bool, props.Outcome, []uint32) {
	tape := simrt.ReplayTape(vals)
	out := execRun(p, tape, o)
	for _, v := range out.Viols {
		if v.Signature == sig {
			return true, out, tape.Used()
		}
	}
	return false, out, nil
}

// minimise shrinks the tape while the same violation signature recurs.
func minimise(p *props.Property, vals []uint32, sig string, o props.Opts, maxAttempts int) []uint32 {
	best := append([]uint32(nil), vals...)
	attempts := 0
	began := time.Now()
	limit := 45 * time.Second
	if maxAttempts < 500 {
		limit = 10 * time.Second
	}
	try := func(cand []uint32) bool {
		if attempts >= maxAttempts || time.Since(began) > limit {
			attempts = maxAttempts
			return false
		}
		attempts++
		ok, _, used := replayOnce(p, cand, sig, o)
		if ok {
			best = trimZeros(used)
			return true
		}
		return false
	}
	best = trimZeros(best)
	// 0. shortest prefix: an exhausted tape yields 0 (= simplest choice), so cutting the tail is the
	//    cheapest big step (it keeps every earlier scheduling decision aligned)
	lo, hi := 0, len(best)
	for lo < hi && attempts < maxAttempts {
		mid := (lo + hi) / 2
		n0 := len(best)
		if try(append([]uint32(nil), best[:mid]...)) {
			hi = len(best)
			if hi > mid {
				hi = mid
			}
			_ = n0
		} else {
			lo = mid + 1
		}
	}
	// 1. zero chunks (keeps alignment), 2. delete chunks (drops operations / choices), 3. lower single values
	for chunk := len(best) / 4; chunk >= 1 && attempts < maxAttempts; chunk /= 2 {
		for pos := 0; pos+chunk <= len(best) && attempts < maxAttempts; pos += chunk {
			allZero := true
			for _, v := range best[pos : pos+chunk] {
				if v != 0 {
					allZero = false
				}
			}
			if allZero {
				continue
			}
			cand := append([]uint32(nil), best...)
			for i := pos; i < pos+chunk; i++ {
				cand[i] = 0
			}
			try(cand)
		}
	}
	for chunk := len(best) / 2; chunk >= 1 && attempts < maxAttempts; chunk /= 2 {
		for pos := 0; pos+chunk <= len(best) && attempts < maxAttempts; {
			cand := append(append([]uint32(nil), best[:pos]...), best[pos+chunk:]...)
			if try(cand) {
				continue
			}
			allZero := true
			for _, v := range best[pos : pos+chunk] {
				if v != 0 {
					allZero = false
				}
			}
			if !allZero {
				cand = append([]uint32(nil), best...)
				for i := pos; i < pos+chunk; i++ {
					cand[i] = 0
				}
				if try(cand) {
					pos += chunk
					continue
				}
			}
			pos += chunk
		}
	}
	for i := 0; i < len(best) && attempts < maxAttempts; i++ {
		for i < len(best) && best[i] > 0 && attempts < maxAttempts {
			cand := append([]uint32(nil), best...)
			cand[i] = best[i] / 2
			if !try(cand) {
				break
			}
		}
	}
	return best
}

func trimZeros(v []uint32) []uint32 {
	n := len(v)
	for n > 0 && v[n-1] == 0 {
		n--
	}
	return append([]uint32(nil), v[:n]...)
}

var workerHistory RunHistory

func minimiseAndWrite(p *props.Property, vals []uint32, v world.Violation, o props.Opts, verifDir string, vseed uint64, idx int, rs uint64, tree string, attempts int) string {
	min := minimise(p, vals, v.Signature, o, attempts)
	ko := o
	ko.KeepLog = true
	ok, out, used := replayOnce(p, min, v.Signature, ko)
	if !ok {
		// fall back to the original tape
		min = vals
		ok, out, used = replayOnce(p, min, v.Signature, ko)
		if !ok {
			// the violation depends on what earlier runs of this process left behind in the code under
			// test (process-global state): the replay is the whole run sequence of this worker
			fmt.Fprintf(os.Stderr, "verif: violation %s does not reproduce from its own tape alone; writing a run-history replay\n", v.Signature)
			h := workerHistory
			rf := ReplayFile{Property: p.ID, VerifSeed: vseed, RunIndex: idx, RunSeed: rs, Tier: o.Tier, TreeHash: tree, Tape: trimZeros(vals), OrigTape: len(vals), Violation: v, History: &h}
			dir := filepath.Join(verifDir, "replays")
			os.MkdirAll(dir, 0o755)
			path := filepath.Join(dir, fmt.Sprintf("%s-%d-%d.json", p.ID, vseed, idx))
			b, _ := json.MarshalIndent(rf, "", " ")
			if err := os.WriteFile(path, b, 0o644); err != nil {
				return ""
			}
			return path
		}
	}
	hist := workerHistory
	rf := ReplayFile{Property: p.ID, VerifSeed: vseed, RunIndex: idx, RunSeed: rs, Tier: o.Tier, TreeHash: tree, Tape: trimZeros(used), OrigTape: len(vals), LogHash: strconv.FormatUint(out.Stats.LogHash, 16), HistoryIfNeeded: &hist}
	for _, vv := range out.Viols {
		if vv.Signature == v.Signature {
			rf.Violation = vv
		}
	}
	rf.Decoded = out.Log
	if len(rf.Decoded) > 400 {
		rf.Decoded = append(rf.Decoded[:200], rf.Decoded[len(rf.Decoded)-200:]...)
	}
	dir := filepath.Join(verifDir, "replays")
	os.MkdirAll(dir, 0o755)
	name := fmt.Sprintf("%s-%d-%d.json", p.ID, vseed, idx)
	path := filepath.Join(dir, name)
	b, _ := json.MarshalIndent(rf, "", " ")
	if err := os.WriteFile(path, b, 0o644); err != nil {
		fmt.Fprintln(os.Stderr, "verif:", err)
		return ""
	}
	return path
}

// ---------------------------------------------------------------------------------------------
// replay

func cmdReplay(args []string) int {
	fs := flag.NewFlagSet("replay", flag.ExitOnError)
	file := fs.String("file", "", "")
	verbose := fs.Bool("v", false, "")
	fs.Parse(args)
	if *file == "" && fs.NArg() > 0 {
		*file = fs.Arg(0)
	}
	b, err := os.ReadFile(*file)
	if err != nil {
		fmt.Fprintln(os.Stderr, err)
		return 2
	}
	var rf ReplayFile
	if err := json.Unmarshal(b, &rf); err != nil {
		fmt.Fprintln(os.Stderr, err)
		return 2
	}
	p := props.Registry[rf.Property]
	if p == nil {
		fmt.Fprintln(os.Stderr, "unknown property", rf.Property)
		return 2
	}
	debug.SetGCPercent(-1)
	startWatchdog(rf.Property)
	if rf.History != nil {
		var sweep [][]uint32
		if p.Sweep != nil {
			sweep = p.Sweep(rf.Tier)
		}
		var out props.Outcome
		n := 0
		for i := rf.History.Start + rf.History.Index; i <= rf.RunIndex; i += rf.History.Stride {
			rs := runSeed(rf.VerifSeed, p.ID, i)
			var tape *simrt.Tape
			if i < len(sweep) {
				tape = simrt.PrefixTape(rs, sweep[i])
			} else {
				tape = simrt.NewTape(rs)
			}
			out = execRun(p, tape, props.Opts{Tier: rf.Tier, KeepLog: i == rf.RunIndex})
			n++
			if n%64 == 0 || (n%4 == 0 && heapBytes() > 512<<20) {
				runtime.GC()
			}
		}
		for _, v := range out.Viols {
			if v.Signature == rf.Violation.Signature {
				fmt.Printf("REPRODUCED property=%s signature=%s (run-history replay: %d runs of one process)\n  %s\n", rf.Property, v.Signature, n, v.Msg)
				return 1
			}
		}
		fmt.Printf("NOT-REPRODUCED property=%s signature=%s (run-history replay of %d runs)\n", rf.Property, rf.Violation.Signature, n)
		return 3
	}
	ok, out, _ := replayOnce(p, rf.Tape, rf.Violation.Signature, props.Opts{Tier: rf.Tier, KeepLog: true})
	if *verbose {
		for _, l := range out.Log {
			fmt.Println(l)
		}
	}
	if ok {
		h := strconv.FormatUint(out.Stats.LogHash, 16)
		fmt.Printf("REPRODUCED property=%s signature=%s event_log_hash=%s (recorded %s)\n", rf.Property, rf.Violation.Signature, h, rf.LogHash)
		for _, v := range out.Viols {
			fmt.Printf("  %s: %s\n", v.Signature, v.Msg)
		}
		if h != rf.LogHash {
			fmt.Println("NOTE: event log hash differs from the recorded one (the tree changed since the file was written?)")
		}
		return 1
	}
	if rf.HistoryIfNeeded != nil {
		// process-global state in the code under test: upgrade the file to a run-history replay and
		// replay that in a fresh process
		rf.History, rf.HistoryIfNeeded = rf.HistoryIfNeeded, nil
		rf.Decoded = nil
		if nb, err := json.MarshalIndent(rf, "", " "); err == nil && os.WriteFile(*file, nb, 0o644) == nil {
			fmt.Printf("not reproduced from its own tape in a fresh process: upgraded %s to a run-history replay\n", *file)
			self, _ := os.Executable()
			cmd := exec.Command(self, "replay", "-file", *file)
			cmd.Stdout, cmd.Stderr = os.Stdout, os.Stderr
			cmd.Run()
			return cmd.ProcessState.ExitCode()
		}
	}
	fmt.Printf("NOT-REPRODUCED property=%s signature=%s\n", rf.Property, rf.Violation.Signature)
	for _, v := range out.Viols {
		fmt.Printf("  other violation: %s: %s\n", v.Signature, v.Msg)
	}
	if out.Infra != nil {
		fmt.Printf("  infra: %s %s\n", out.Infra.Kind, out.Infra.Msg)
	}
	return 3
}

// ---------------------------------------------------------------------------------------------
// check (parent)

func cmdCheck(args []string) int {
	fs := flag.NewFlagSet("check", flag.ExitOnError)
	propID := fs.String("prop", "", "")
	tier := fs.String("tier", "quick", "")
	verifDir := fs.String("verif", "/verif", "")
	workers := fs.Int("workers", 0, "")
	budgetOverride := fs.Duration("budget", 0, "")
	treeHash := fs.String("tree", "", "")
	instr := fs.String("instrumentation", "", "")
	evidenceDir := fs.String("evidence-dir", "", "")
	fs.Parse(args)
	p := props.Registry[*propID]
	if p == nil {
		fmt.Fprintln(os.Stderr, "verif: unknown property", *propID)
		return 2
	}
	seed := uint64(1)
	if s := os.Getenv("VERIF_SEED"); s != "" {
		if v, err := strconv.ParseUint(s, 10, 64); err == nil {
			seed = v
		}
	}
	n := *workers
	if n == 0 {
		n = runtime.NumCPU()
		if n > 16 {
			n = 16
		}
	}
	budget := time.Duration(p.QuickSec) * time.Second
	if *tier == "thorough" {
		budget = time.Duration(p.ThoroughSec) * time.Second
	}
	if *budgetOverride > 0 {
		budget = *budgetOverride
	}
	start := time.Now()
	self, _ := os.Executable()
	// replay files of earlier runs of this check are stale now
	if old, _ := filepath.Glob(filepath.Join(*verifDir, "replays", p.ID+"-*.json")); len(old) > 0 {
		for _, f := range old {
			os.Remove(f)
		}
	}
	tmp, err := os.MkdirTemp(filepath.Join(*verifDir, ".cache"), "run-")
	if err != nil {
		fmt.Fprintln(os.Stderr, "verif:", err)
		return 2
	}
	defer os.RemoveAll(tmp)
	type wres struct {
		sum WorkerSummary
		err error
		log string
	}
	results := make([]wres, n)
	var mu sync.Mutex
	done := make(chan int, n)
	type round struct {
		sum WorkerSummary
		err error
	}
	var extra []WorkerSummary
	for i := 0; i < n; i++ {
		go func(i int) {
			deadline := start.Add(budget)
			startAt := 0
			for r := 0; ; r++ {
				out := filepath.Join(tmp, fmt.Sprintf("w%d-%d.json", i, r))
				left := time.Until(deadline)
				if r > 0 && left < time.Second {
					break
				}
				if r == 0 {
					left = budget
				}
				args := []string{"worker", "-prop", p.ID, "-tier", *tier, "-seed", strconv.FormatUint(seed, 10),
					"-index", strconv.Itoa(i), "-stride", strconv.Itoa(n), "-budget", left.String(), "-out", out, "-verif", *verifDir, "-tree", *treeHash,
					"-start", strconv.Itoa(startAt)}
				if p.Recycle > 0 {
					args = append(args, "-maxruns", strconv.Itoa(p.Recycle))
				}
				cmd := exec.Command(self, args...)
				var sb strings.Builder
				cmd.Stderr = &sb
				cmd.Stdout = &sb
				err := cmd.Run()
				var ws WorkerSummary
				if err != nil {
					results[i].err = fmt.Errorf("worker %d: %v\n%s", i, err, tail(sb.String(), 4000))
					break
				} else if b, rerr := os.ReadFile(out); rerr != nil {
					results[i].err = rerr
					break
				} else if jerr := json.Unmarshal(b, &ws); jerr != nil {
					results[i].err = jerr
					break
				}
				if r == 0 {
					results[i].sum = ws
				} else {
					mu.Lock()
					extra = append(extra, ws)
					mu.Unlock()
				}
				if p.Recycle == 0 || len(ws.Violations) > 0 && hasUnknown(ws.Violations) || ws.Runs < p.Recycle {
					break
				}
				startAt += p.Recycle * n
			}
			done <- i
		}(i)
	}
	for i := 0; i < n; i++ {
		<-done
	}
	// aggregate
	agg := WorkerSummary{Faults: map[string]int{}, Probes: map[string]int{}, Oracle: map[string]int{}}
	classes := map[string]bool{}
	traces := map[uint64]bool{}
	pairs := map[string]bool{}
	var viols []FoundViolation
	crashed := 0
	var crashMsgs []string
	var sums []WorkerSummary
	for _, r := range results {
		if r.err != nil {
			crashed++
			crashMsgs = append(crashMsgs, r.err.Error())
			continue
		}
		sums = append(sums, r.sum)
	}
	sums = append(sums, extra...)
	for _, s := range sums {
		agg.Runs += s.Runs
		agg.SweepRuns += s.SweepRuns
		agg.SweepTotal = s.SweepTotal
		agg.Ops += s.Ops
		agg.Steps += s.Steps
		agg.Switches += s.Switches
		agg.MapAcc += s.MapAcc
		agg.SimTimeNs += s.SimTimeNs
		agg.Nontrivial += s.Nontrivial
		agg.Infra += s.Infra
		agg.HarnessPanics += s.HarnessPanics
		agg.InfraMsgs = append(agg.InfraMsgs, s.InfraMsgs...)
		for k, v := range s.Faults {
			agg.Faults[k] += v
		}
		for k, v := range s.Probes {
			agg.Probes[k] += v
		}
		for k, v := range s.Oracle {
			agg.Oracle[k] += v
		}
		for _, c := range s.Classes {
			classes[c] = true
		}
		for _, h := range s.Traces {
			traces[h] = true
		}
		for _, pr := range s.Pairs {
			pairs[pr] = true
		}
		if len(agg.Samples) < 3 {
			agg.Samples = append(agg.Samples, s.Samples...)
		}
		agg.Seeds = append(agg.Seeds, s.Seeds...)
		viols = append(viols, s.Violations...)
	}
	wall := time.Since(start).Seconds()
	known := loadKnown(*verifDir)

	// verify every violation by replaying its file in a fresh process
	exit := 0
	var lines []string
	seenKnown := map[string]bool{}
	nviol := 0
	for _, v := range viols {
		if v.Replay == "" {
			fmt.Fprintf(os.Stderr, "verif: violation %s has no replay file (did not reproduce): harness trouble\n", v.Violation.Signature)
			if exit == 0 {
				exit = 2
			}
			continue
		}
		cmd := exec.Command(self, "replay", "-file", v.Replay)
		outb, _ := cmd.CombinedOutput()
		code := cmd.ProcessState.ExitCode()
		if code != 1 {
			fmt.Fprintf(os.Stderr, "verif: replay of %s in a fresh process did not reproduce (exit %d): harness trouble\n%s\n", v.Replay, code, tail(string(outb), 2000))
			if exit == 0 {
				exit = 2
			}
			continue
		}
		if what, ok := known.match(p.ID, v.Violation.Signature); ok {
			if !seenKnown[v.Violation.Signature] {
				seenKnown[v.Violation.Signature] = true
				lines = append(lines, fmt.Sprintf("KNOWN-FINDING: property=%s %s [signature=%s replay=%s]", p.ID, what, v.Violation.Signature, v.Replay))
			}
			continue
		}
		nviol++
		lines = append(lines, fmt.Sprintf("VIOLATION property=%s replay=%s", p.ID, v.Replay))
		lines = append(lines, fmt.Sprintf("  signature=%s", v.Violation.Signature))
		lines = append(lines, "  "+strings.ReplaceAll(tail(v.Violation.Msg, 1500), "\n", "\n  "))
		exit = 1
	}
	if crashed > 0 {
		fmt.Fprintf(os.Stderr, "verif: %d worker(s) failed:\n%s\n", crashed, strings.Join(crashMsgs, "\n"))
		if exit == 0 {
			exit = 2
		}
	}
	if agg.Runs == 0 && exit == 0 {
		fmt.Fprintln(os.Stderr, "verif: no runs executed")
		exit = 2
	}
	if agg.SweepTotal > 0 && agg.SweepRuns < agg.SweepTotal && exit == 0 {
		fmt.Fprintf(os.Stderr, "verif: sweep incomplete (%d of %d)\n", agg.SweepRuns, agg.SweepTotal)
		exit = 2
	}
	if agg.Infra > 0 {
		fmt.Fprintf(os.Stderr, "verif: %d run(s) ended in budget/harness trouble (not violations); first:\n%s\n", agg.Infra, strings.Join(first(agg.InfraMsgs, 2), "\n"))
		// a panic of the harness itself is never tolerated; step-budget exhaustion up to 2% of the runs
		if (agg.HarnessPanics > 0 || float64(agg.Infra) > 0.02*float64(agg.Runs)) && exit == 0 {
			exit = 2
		}
	}

	// evidence
	ev := map[string]any{
		"property_id": p.ID,
		"tier":        *tier,
		"seed":        seed,
		"level":       p.Level,
		"wall_s":      wall,
		"violations":  nviol,
		"assumptions": p.Assumptions,
	}
	cov := map[string]any{
		"evaluations":         agg.Runs,
		"distinct_nontrivial": len(classes),
		"rule":                p.Rule,
		"samples":             agg.Samples,
		"nontrivial_runs":     agg.Nontrivial,
		"operations":          agg.Ops,
		"scheduling_steps":    agg.Steps,
		"context_switches":    agg.Switches,
		"map_accesses_checked_for_happens_before":     agg.MapAcc,
		"distinct_interleavings_by_switch_trace_hash": len(traces),
		"distinct_switch_site_pairs":                  len(pairs),
		"simulated_time_s":                            float64(agg.SimTimeNs) / 1e9,
		"runs_per_hour":                               float64(agg.Runs) / wall * 3600,
		"faults_fired":                                agg.Faults,
		"probe_hits":                                  agg.Probes,
		"oracle_evaluations":                          agg.Oracle,
		"run_seeds_first":                             first64(agg.Seeds, 16),
		"workers":                                     n,
		"runs_in_budget_or_harness_trouble":           agg.Infra,
		"known_findings_hit":                          len(seenKnown),
	}
	if agg.SweepTotal > 0 {
		cov["sweep_cases_total"] = agg.SweepTotal
		cov["sweep_cases_run"] = agg.SweepRuns
		cov["exhaustive"] = false
		cov["exhaustive_part"] = "every enumerated single-fault / case prefix was run once; the remaining runs are sampled"
	}
	if len(agg.Samples) == 0 {
		cov["samples"] = []any{"(no sample recorded)"}
	}
	if *instr != "" {
		if b, err := os.ReadFile(*instr); err == nil {
			var ins map[string]any
			if json.Unmarshal(b, &ins) == nil {
				cov["instrumentation_sites_total"] = ins["total"]
				cov["real_code_packages"] = ins["packages"]
			}
		}
	}
	cov["stubs_and_fakes"] = props.Stubs[p.ID]
	cov["real_code"] = "every package listed under real_code_packages runs the repository's own source from the current working tree, rewritten only at synchronisation/clock/randomness call sites by the build overlay"
	ev["coverage"] = cov
	eb, _ := json.MarshalIndent(ev, "", " ")
	evDir := filepath.Join(*verifDir, "evidence")
	if *evidenceDir != "" {
		evDir = *evidenceDir
	}
	os.MkdirAll(evDir, 0o755)
	if err := os.WriteFile(filepath.Join(evDir, p.ID+".json"), eb, 0o644); err != nil {
		fmt.Fprintln(os.Stderr, "verif:", err)
		if exit == 0 {
			exit = 2
		}
	}
	for _, l := range lines {
		fmt.Println(l)
	}
	fmt.Printf("%s %s: %d runs (%d sweep), %d nontrivial, %d distinct classes, %d distinct interleavings, %.0f runs/h, %.1fs; exit %d\n",
		p.ID, *tier, agg.Runs, agg.SweepRuns, agg.Nontrivial, len(classes), len(traces), float64(agg.Runs)/wall*3600, wall, exit)
	return exit
}

func tail(s string, n int) string {
	if len(s) > n {
		return "..." + s[len(s)-n:]
	}
	return s
}

func first(a []string, n int) []string {
	if len(a) > n {
		return a[:n]
	}
	return a
}

func first64(a []uint64, n int) []uint64 {
	if len(a) > n {
		return a[:n]
	}
	return a
}

func hasUnknown(vs []FoundViolation) bool {
	for _, v := range vs {
		if !v.Known {
			return true
		}
	}
	return false
}

// cmdHashes prints, for run indices 0..n-1, the event-log hash, the switch-trace hash and the
// violation signatures: the determinism self-test compares these lines across processes,
// GOMAXPROCS values and paranoid mode.
func cmdHashes(args []string) int {
	fs := flag.NewFlagSet("hashes", flag.ExitOnError)
	propID := fs.String("prop", "", "")
	n := fs.Int("n", 40, "")
	seed := fs.Uint64("seed", 1, "")
	paranoid := fs.Bool("paranoid", false, "")
	dump := fs.Int("dump", -1, "")
	fs.Parse(args)
	p := props.Registry[*propID]
	if p == nil {
		return 2
	}
	debug.SetGCPercent(-1)
	var sweep [][]uint32
	if p.Sweep != nil {
		sweep = p.Sweep("quick")
	}
	for i := 0; i < *n; i++ {
		rs := runSeed(*seed, p.ID, i)
		var tape *simrt.Tape
		// alternate enumerated and sampled cases
		if i%2 == 0 && i/2 < len(sweep) {
			tape = simrt.PrefixTape(rs, sweep[(i/2*7919)%len(sweep)])
		} else {
			tape = simrt.NewTape(rs)
		}
		out := execRun(p, tape, props.Opts{Tier: "quick", Paranoid: *paranoid, KeepLog: i == *dump})
		if i == *dump {
			for _, l := range out.Log {
				fmt.Println(l)
			}
		}
		sigs := ""
		for _, v := range out.Viols {
			sigs += v.Signature + ";"
		}
		infra := ""
		if out.Infra != nil {
			infra = string(out.Infra.Kind) + ":" + out.Infra.Msg
		}
		fmt.Printf("%s %d %x %x %d %d %s %s\n", p.ID, i, out.Stats.LogHash, out.Stats.TraceHash, out.Stats.Steps, len(tape.Used()), sigs, infra)
		if i%32 == 31 {
			runtime.GC()
		}
	}
	return 0
}
