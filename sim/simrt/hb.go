package simrt

import (
	"fmt"
	"runtime"
	"strings"
	"unsafe"
)

// Happens-before tracking. Under the cooperative scheduler only one task runs at a time, so an
// unsynchronised access pair never collides physically and Go's own race detector sees every
// hand-over of the run token as synchronisation. What the code under test itself guarantees is
// tracked here instead: every shim (mutex, rwmutex, cond, once, waitgroup, pool, sync.Map, atomics,
// channels, select, go, timers) adds the edge the Go memory model gives it to vector clocks, and the
// instrumenter routes every access to a built-in map through MapR / MapW. Two accesses to one map,
// at least one of them a write, that are not ordered by those edges are what the runtime punishes
// with "fatal error: concurrent map read and map write" (not recoverable, the process dies) - it is
// reported as such, whatever the schedule of this particular run was.
//
// Edges that are missing only make the detector report more, so every edge the harness itself adds
// (Join, timers, the all-tasks barrier for channels closed by uninstrumented code) is included; edges
// that are too many only make it report less.

// VC is a vector clock indexed by task id.
type VC []uint32

func (v VC) get(i int) uint32 {
	if i < len(v) {
		return v[i]
	}
	return 0
}

func joinVC(a, b VC) VC {
	if len(b) > len(a) {
		n := make(VC, len(b))
		copy(n, a)
		a = n
	}
	for i, x := range b {
		if x > a[i] {
			a[i] = x
		}
	}
	return a
}

func (t *Task) tick() {
	for len(t.vc) <= t.ID {
		t.vc = append(t.vc, 0)
	}
	t.vc[t.ID]++
}

type mapAccess struct {
	task  int
	clock uint32
	pc    uintptr
	id    uintptr
}

type mapState struct {
	write *mapAccess
	reads []mapAccess // at most one per task
}

// Acquire: the calling task learns everything released on obj so far.
func (s *Sim) Acquire(obj any) {
	if s.hbOff || s.cur == nil {
		return
	}
	if l, ok := s.hbObj[obj]; ok {
		s.cur.vc = joinVC(s.cur.vc, l)
	}
}

// Release: everything the calling task did so far is published on obj.
func (s *Sim) Release(obj any) {
	if s.hbOff {
		return
	}
	vc := s.timerVC
	if vc == nil {
		if s.cur == nil {
			return
		}
		if len(s.cur.vc) == 0 {
			s.cur.tick()
		}
		vc = s.cur.vc
	}
	if s.hbObj == nil {
		s.hbObj = map[any]VC{}
	}
	s.hbObj[obj] = joinVC(append(VC(nil), s.hbObj[obj]...), vc)
	if s.timerVC == nil {
		s.cur.tick()
	}
}

// AcqRel is Acquire followed by Release (atomics, sync.Map, channel rendezvous).
func (s *Sim) AcqRel(obj any) {
	s.Acquire(obj)
	s.Release(obj)
}

// Barrier: the calling task learns everything every task did so far (used when a synchronising
// event comes from uninstrumented code whose own ordering is not visible here).
func (s *Sim) Barrier() {
	if s.hbOff || s.cur == nil {
		return
	}
	for _, t := range s.tasks {
		if t != s.cur {
			s.cur.vc = joinVC(s.cur.vc, t.vc)
		}
	}
}

func mapID[M ~map[K]V, K comparable, V any](m M) uintptr {
	return *(*uintptr)(unsafe.Pointer(&m))
}

// MapR wraps the map operand of a read (index expression, range, len).
func MapR[M ~map[K]V, K comparable, V any](m M) M {
	if s := S(); s != nil && !s.hbOff && !s.ending {
		if id := mapID(m); id != 0 {
			s.mapAccess(id, false)
		}
	}
	return m
}

// MapW wraps the map operand of a write (assignment through an index expression, delete, clear).
func MapW[M ~map[K]V, K comparable, V any](m M) M {
	if s := S(); s != nil && !s.hbOff && !s.ending {
		if id := mapID(m); id != 0 {
			s.mapAccess(id, true)
		}
	}
	return m
}

// VarW marks a write to a variable that goroutine literals of the code under test assign to (the
// instrumenter finds them: variables declared outside a `go func() {...}` literal and assigned inside
// it). Two writes to such a variable that nothing orders are a data race - a lost `append`, a torn
// value - whatever this run's schedule was.
func VarW[T any](p *T) {
	if s := S(); s != nil && !s.hbOff && !s.ending && p != nil {
		id := uintptr(unsafe.Pointer(p))
		if s.hbVars == nil {
			s.hbVars = map[uintptr]bool{}
		}
		s.hbVars[id] = true
		s.mapAccess(id, true)
	}
}

func (s *Sim) mapAccess(id uintptr, write bool) {
	t := s.cur
	if t == nil {
		return
	}
	if len(t.vc) <= t.ID {
		t.tick()
	}
	if s.hbMaps == nil {
		s.hbMaps = map[uintptr]*mapState{}
	}
	st := s.hbMaps[id]
	if st == nil {
		st = &mapState{}
		s.hbMaps[id] = st
	}
	s.MapAccesses++
	var pcs [1]uintptr
	runtime.Callers(3, pcs[:])
	me := mapAccess{task: t.ID, clock: t.vc[t.ID], pc: pcs[0], id: id}
	ordered := func(a *mapAccess) bool { return a.task == t.ID || a.clock <= t.vc.get(a.task) }
	if st.write != nil && !ordered(st.write) {
		s.reportMapRace(st.write, true, &me, write)
		return
	}
	if write {
		for i := range st.reads {
			if !ordered(&st.reads[i]) {
				s.reportMapRace(&st.reads[i], false, &me, true)
				return
			}
		}
		st.write = &me
		st.reads = st.reads[:0]
		return
	}
	for i := range st.reads {
		if st.reads[i].task == t.ID {
			st.reads[i] = me
			return
		}
	}
	st.reads = append(st.reads, me)
}

func pcSite(pc uintptr) string {
	f, _ := runtime.CallersFrames([]uintptr{pc}).Next()
	fn := f.Function
	if i := strings.LastIndex(fn, "/"); i >= 0 {
		fn = fn[i+1:]
	}
	return fmt.Sprintf("%s (%s:%d)", fn, shortFile(f.File), f.Line)
}

func shortFile(p string) string {
	if i := strings.LastIndex(p, "/"); i >= 0 {
		return p[i+1:]
	}
	return p
}

func kindOf(w bool) string {
	if w {
		return "write"
	}
	return "read"
}

func (s *Sim) reportMapRace(a *mapAccess, aw bool, b *mapAccess, bw bool) {
	an, bn := "?", "?"
	for _, t := range s.tasks {
		if t.ID == a.task {
			an = t.Name
		}
		if t.ID == b.task {
			bn = t.Name
		}
	}
	if s.hbVars[b.id] {
		s.MapRaces++
		s.Fatal(FailPanic, fmt.Sprintf("data race: task %d (%s) writes a variable shared between goroutines in %s while nothing orders that after the write by task %d (%s) in %s; one of the two updates is lost or the value is torn",
			b.task, bn, pcSite(b.pc), a.task, an, pcSite(a.pc)))
		return
	}
	msg := fmt.Sprintf("fatal error: concurrent map %s and map %s: task %d (%s) %ss a map in %s while nothing orders that after the %s by task %d (%s) in %s; the Go runtime aborts the process on such a pair",
		kindOf(aw), kindOf(bw), b.task, bn, kindOf(bw), pcSite(b.pc), kindOf(aw), a.task, an, pcSite(a.pc))
	s.MapRaces++
	s.Fatal(FailPanic, msg)
}
