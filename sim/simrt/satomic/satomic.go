// Package satomic mirrors sync/atomic: each operation is a scheduling point followed by the
// real atomic operation.
package satomic

import (
	"sync/atomic"
	"unsafe"

	"verif/sim/simrt"
)

// Every atomic operation synchronises with every other one (one shared clock: more ordering than the
// memory model gives, which can only hide a race from the detector in simrt/hb.go, never invent one).
var atomics = new(int)

func pt() {
	if s := simrt.S(); s != nil {
		s.Point(simrt.KSync, "atomic")
		s.AcqRel(atomics)
	}
}

func AddInt32(addr *int32, delta int32) int32             { pt(); return atomic.AddInt32(addr, delta) }
func AddInt64(addr *int64, delta int64) int64             { pt(); return atomic.AddInt64(addr, delta) }
func AddUint32(addr *uint32, delta uint32) uint32         { pt(); return atomic.AddUint32(addr, delta) }
func AddUint64(addr *uint64, delta uint64) uint64         { pt(); return atomic.AddUint64(addr, delta) }
func AddUintptr(addr *uintptr, d uintptr) uintptr         { pt(); return atomic.AddUintptr(addr, d) }
func LoadInt32(addr *int32) int32                         { pt(); return atomic.LoadInt32(addr) }
func LoadInt64(addr *int64) int64                         { pt(); return atomic.LoadInt64(addr) }
func LoadUint32(addr *uint32) uint32                      { pt(); return atomic.LoadUint32(addr) }
func LoadUint64(addr *uint64) uint64                      { pt(); return atomic.LoadUint64(addr) }
func LoadUintptr(addr *uintptr) uintptr                   { pt(); return atomic.LoadUintptr(addr) }
func LoadPointer(addr *unsafe.Pointer) unsafe.Pointer     { pt(); return atomic.LoadPointer(addr) }
func StoreInt32(addr *int32, v int32)                     { pt(); atomic.StoreInt32(addr, v) }
func StoreInt64(addr *int64, v int64)                     { pt(); atomic.StoreInt64(addr, v) }
func StoreUint32(addr *uint32, v uint32)                  { pt(); atomic.StoreUint32(addr, v) }
func StoreUint64(addr *uint64, v uint64)                  { pt(); atomic.StoreUint64(addr, v) }
func StoreUintptr(addr *uintptr, v uintptr)               { pt(); atomic.StoreUintptr(addr, v) }
func StorePointer(addr *unsafe.Pointer, v unsafe.Pointer) { pt(); atomic.StorePointer(addr, v) }
func SwapInt32(addr *int32, v int32) int32                { pt(); return atomic.SwapInt32(addr, v) }
func SwapInt64(addr *int64, v int64) int64                { pt(); return atomic.SwapInt64(addr, v) }
func SwapUint32(addr *uint32, v uint32) uint32            { pt(); return atomic.SwapUint32(addr, v) }
func SwapUint64(addr *uint64, v uint64) uint64            { pt(); return atomic.SwapUint64(addr, v) }
func CompareAndSwapInt32(addr *int32, o, n int32) bool {
	pt()
	return atomic.CompareAndSwapInt32(addr, o, n)
}
func CompareAndSwapInt64(addr *int64, o, n int64) bool {
	pt()
	return atomic.CompareAndSwapInt64(addr, o, n)
}
func CompareAndSwapUint32(addr *uint32, o, n uint32) bool {
	pt()
	return atomic.CompareAndSwapUint32(addr, o, n)
}
func CompareAndSwapUint64(addr *uint64, o, n uint64) bool {
	pt()
	return atomic.CompareAndSwapUint64(addr, o, n)
}

type Int32 struct{ v atomic.Int32 }

func (x *Int32) Load() int32                    { pt(); return x.v.Load() }
func (x *Int32) Store(v int32)                  { pt(); x.v.Store(v) }
func (x *Int32) Swap(v int32) int32             { pt(); return x.v.Swap(v) }
func (x *Int32) Add(d int32) int32              { pt(); return x.v.Add(d) }
func (x *Int32) CompareAndSwap(o, n int32) bool { pt(); return x.v.CompareAndSwap(o, n) }

type Int64 struct{ v atomic.Int64 }

func (x *Int64) Load() int64                    { pt(); return x.v.Load() }
func (x *Int64) Store(v int64)                  { pt(); x.v.Store(v) }
func (x *Int64) Swap(v int64) int64             { pt(); return x.v.Swap(v) }
func (x *Int64) Add(d int64) int64              { pt(); return x.v.Add(d) }
func (x *Int64) CompareAndSwap(o, n int64) bool { pt(); return x.v.CompareAndSwap(o, n) }

type Uint32 struct{ v atomic.Uint32 }

func (x *Uint32) Load() uint32                    { pt(); return x.v.Load() }
func (x *Uint32) Store(v uint32)                  { pt(); x.v.Store(v) }
func (x *Uint32) Swap(v uint32) uint32            { pt(); return x.v.Swap(v) }
func (x *Uint32) Add(d uint32) uint32             { pt(); return x.v.Add(d) }
func (x *Uint32) CompareAndSwap(o, n uint32) bool { pt(); return x.v.CompareAndSwap(o, n) }

type Uint64 struct{ v atomic.Uint64 }

func (x *Uint64) Load() uint64                    { pt(); return x.v.Load() }
func (x *Uint64) Store(v uint64)                  { pt(); x.v.Store(v) }
func (x *Uint64) Swap(v uint64) uint64            { pt(); return x.v.Swap(v) }
func (x *Uint64) Add(d uint64) uint64             { pt(); return x.v.Add(d) }
func (x *Uint64) CompareAndSwap(o, n uint64) bool { pt(); return x.v.CompareAndSwap(o, n) }

type Bool struct{ v atomic.Bool }

func (x *Bool) Load() bool                    { pt(); return x.v.Load() }
func (x *Bool) Store(v bool)                  { pt(); x.v.Store(v) }
func (x *Bool) Swap(v bool) bool              { pt(); return x.v.Swap(v) }
func (x *Bool) CompareAndSwap(o, n bool) bool { pt(); return x.v.CompareAndSwap(o, n) }

type Pointer[T any] struct{ v atomic.Pointer[T] }

func (x *Pointer[T]) Load() *T                    { pt(); return x.v.Load() }
func (x *Pointer[T]) Store(v *T)                  { pt(); x.v.Store(v) }
func (x *Pointer[T]) Swap(v *T) *T                { pt(); return x.v.Swap(v) }
func (x *Pointer[T]) CompareAndSwap(o, n *T) bool { pt(); return x.v.CompareAndSwap(o, n) }

type Value struct{ v atomic.Value }

func (x *Value) Load() any                    { pt(); return x.v.Load() }
func (x *Value) Store(v any)                  { pt(); x.v.Store(v) }
func (x *Value) Swap(v any) any               { pt(); return x.v.Swap(v) }
func (x *Value) CompareAndSwap(o, n any) bool { pt(); return x.v.CompareAndSwap(o, n) }
