// Package stime mirrors the clock-reading and timer functions of package time.
package stime

import (
	"time"

	"verif/sim/simrt"
)

func Now() time.Time {
	if s := simrt.S(); s != nil {
		return s.Now()
	}
	return time.Now()
}

func Since(t time.Time) time.Duration { return Now().Sub(t) }
func Until(t time.Time) time.Duration { return t.Sub(Now()) }

func Sleep(d time.Duration) {
	if s := simrt.S(); s != nil {
		s.Sleep(d)
		return
	}
	time.Sleep(d)
}

// AfterFunc under simulation runs f as a new task once the simulated clock reaches now+d.
// The returned timer cannot be stopped under simulation (the instrumenter rejects uses of the result).
func AfterFunc(d time.Duration, f func()) *time.Timer {
	if s := simrt.S(); s != nil {
		cur := s.Cur()
		s.AddTimer(d, func() { s.GoFromTimer("afterfunc", cur.Node, f) })
		return nil
	}
	return time.AfterFunc(d, f)
}
