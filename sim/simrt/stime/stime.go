// Package stime mirrors the clock-reading, timer and deadline functions of packages time and context.
package stime

import (
	"context"
	"sync"
	"time"

	"verif/sim/simrt"
)

func Now() time.Time {
	if s := simrt.S(); s != nil {
		return s.Now()
	}
	return time.Now()
}

func Since(t time.Time) time.Duration { return Now().Sub(t) }
func Until(t time.Time) time.Duration { return t.Sub(Now()) }

func Sleep(d time.Duration) {
	if s := simrt.S(); s != nil {
		s.Sleep(d)
		return
	}
	time.Sleep(d)
}

// Timer mirrors time.Timer. Under simulation it fires when the simulated clock reaches its time.
type Timer struct {
	C    <-chan time.Time
	c    chan time.Time
	s    *simrt.Sim
	h    *simrt.TimerH
	f    func()
	node int
	real *time.Timer
}

func (t *Timer) arm(d time.Duration) {
	s := t.s
	if t.f != nil {
		f, node := t.f, t.node
		t.h = s.AddTimer(d, func() { t.h = nil; s.GoFromTimer("afterfunc", node, f) })
		return
	}
	t.h = s.AddTimer(d, func() { t.h = nil; simrt.Offer(s, t.c, s.Global().Add(0)) })
}

// NewTimer mirrors time.NewTimer.
func NewTimer(d time.Duration) *Timer {
	s := simrt.S()
	if s == nil {
		r := time.NewTimer(d)
		return &Timer{C: r.C, real: r}
	}
	c := make(chan time.Time, 1)
	t := &Timer{C: c, c: c, s: s}
	t.arm(d)
	return t
}

// AfterFunc under simulation runs f as a new task once the simulated clock reaches now+d.
func AfterFunc(d time.Duration, f func()) *Timer {
	s := simrt.S()
	if s == nil {
		return &Timer{real: time.AfterFunc(d, f)}
	}
	t := &Timer{s: s, f: f, node: s.Cur().Node}
	t.arm(d)
	return t
}

// Stop mirrors (*time.Timer).Stop (Go 1.23 semantics: no stale value is left in C).
func (t *Timer) Stop() bool {
	if t.real != nil {
		return t.real.Stop()
	}
	active := t.h.Cancel()
	t.h = nil
	if t.c != nil {
		simrt.Drain(t.s, t.c)
	}
	return active
}

// Reset mirrors (*time.Timer).Reset.
func (t *Timer) Reset(d time.Duration) bool {
	if t.real != nil {
		return t.real.Reset(d)
	}
	active := t.Stop()
	t.arm(d)
	return active
}

// After mirrors time.After.
func After(d time.Duration) <-chan time.Time { return NewTimer(d).C }

// Ticker mirrors time.Ticker.
type Ticker struct {
	C    <-chan time.Time
	c    chan time.Time
	s    *simrt.Sim
	h    *simrt.TimerH
	d    time.Duration
	real *time.Ticker
}

func (t *Ticker) arm() {
	s := t.s
	t.h = s.AddTimer(t.d, func() {
		simrt.Offer(s, t.c, s.Global())
		t.arm()
	})
}

// NewTicker mirrors time.NewTicker.
func NewTicker(d time.Duration) *Ticker {
	if d <= 0 {
		panic("non-positive interval for NewTicker")
	}
	s := simrt.S()
	if s == nil {
		r := time.NewTicker(d)
		return &Ticker{C: r.C, real: r}
	}
	c := make(chan time.Time, 1)
	t := &Ticker{C: c, c: c, s: s, d: d}
	t.arm()
	return t
}

func (t *Ticker) Stop() {
	if t.real != nil {
		t.real.Stop()
		return
	}
	t.h.Cancel()
	t.h = nil
}

func (t *Ticker) Reset(d time.Duration) {
	if t.real != nil {
		t.real.Reset(d)
		return
	}
	t.Stop()
	t.d = d
	t.arm()
}

// Tick mirrors time.Tick.
func Tick(d time.Duration) <-chan time.Time {
	if d <= 0 {
		return nil
	}
	return NewTicker(d).C
}

// ---- deadlines ----

// deadlineCtx is a context whose deadline is a simulated timer. It offers AfterFunc, so contexts
// derived from it by package context are cancelled synchronously (no watcher goroutine); its own
// parent is watched by a poller that runs inside the scheduler.
type deadlineCtx struct {
	context.Context // the parent, for Value
	deadline        time.Time
	mu              sync.Mutex
	done            chan struct{}
	err             error
	after           []*func()
	h               *simrt.TimerH
}

func (c *deadlineCtx) Deadline() (time.Time, bool) { return c.deadline, true }
func (c *deadlineCtx) Done() <-chan struct{}       { return c.done }
func (c *deadlineCtx) Err() error {
	c.mu.Lock()
	defer c.mu.Unlock()
	return c.err
}

// AfterFunc is what package context calls to propagate cancellation to children.
func (c *deadlineCtx) AfterFunc(f func()) func() bool {
	c.mu.Lock()
	if c.err != nil {
		c.mu.Unlock()
		f()
		return func() bool { return false }
	}
	pf := &f
	c.after = append(c.after, pf)
	c.mu.Unlock()
	return func() bool {
		c.mu.Lock()
		defer c.mu.Unlock()
		for i, g := range c.after {
			if g == pf {
				c.after = append(c.after[:i], c.after[i+1:]...)
				return true
			}
		}
		return false
	}
}

func (c *deadlineCtx) cancel(err error) {
	c.mu.Lock()
	if c.err != nil {
		c.mu.Unlock()
		return
	}
	c.err = err
	close(c.done) // a real close: every simulated receive on Done polls the real channel
	after := c.after
	c.after = nil
	c.mu.Unlock()
	c.h.Cancel()
	for _, f := range after {
		(*f)()
	}
}

// WithDeadline mirrors context.WithDeadline on the simulated clock.
func WithDeadline(parent context.Context, d time.Time) (context.Context, context.CancelFunc) {
	s := simrt.S()
	if s == nil {
		return context.WithDeadline(parent, d)
	}
	if cur, ok := parent.Deadline(); ok && cur.Before(d) {
		return context.WithCancel(parent)
	}
	c := &deadlineCtx{Context: parent, deadline: d, done: make(chan struct{})}
	if err := parent.Err(); err != nil {
		c.cancel(err)
		return c, func() {}
	}
	dur := d.Sub(s.Now())
	if dur <= 0 {
		c.cancel(context.DeadlineExceeded)
		return c, func() {}
	}
	c.h = s.AddTimer(dur, func() { c.cancel(context.DeadlineExceeded) })
	if parent.Done() != nil {
		s.AddPoller(func() bool {
			if c.Err() != nil {
				return false
			}
			if err := parent.Err(); err != nil {
				c.cancel(err)
				return false
			}
			return true
		})
	}
	return c, func() { c.cancel(context.Canceled) }
}

// WithTimeout mirrors context.WithTimeout on the simulated clock.
func WithTimeout(parent context.Context, d time.Duration) (context.Context, context.CancelFunc) {
	if simrt.S() == nil {
		return context.WithTimeout(parent, d)
	}
	return WithDeadline(parent, Now().Add(d))
}
