// Package simrt is the deterministic simulation runtime: one choice tape decides
// everything, a cooperative scheduler decides which task runs, and a discrete-event
// clock replaces wall time.
package simrt

// Tape is the single source of nondeterminism of a run. In generate mode values come
// from a PRNG and are recorded; in replay mode they are read back (exhausted => 0).
// By convention 0 is always the simplest choice.
type Tape struct {
	Vals   []uint32
	pos    int
	replay bool
	prefix int
	rng    pcg
	// Labels is filled only when Trace is on (debugging / decoded replay output).
	Trace  bool
	Labels []string
}

// NewTape returns a generating tape seeded with seed.
func NewTape(seed uint64) *Tape {
	t := &Tape{}
	t.rng.seed(seed)
	return t
}

// PrefixTape replays prefix and then continues generating from seed: the prefix carries the
// coordinates of an enumerated case (sweeps), the rest is sampled.
func PrefixTape(seed uint64, prefix []uint32) *Tape {
	t := NewTape(seed)
	t.Vals = append([]uint32(nil), prefix...)
	t.prefix = len(prefix)
	return t
}

// ReplayTape returns a tape that replays vals.
func ReplayTape(vals []uint32) *Tape {
	return &Tape{Vals: append([]uint32(nil), vals...), replay: true}
}

// Choose returns a value in [0,n). n<=1 consumes nothing.
func (t *Tape) Choose(n int, label string) int {
	if n <= 1 {
		return 0
	}
	var v uint32
	if t.replay || t.pos < t.prefix {
		if t.pos < len(t.Vals) {
			v = t.Vals[t.pos]
			if int(v) >= n {
				v = uint32(int(v) % n)
				t.Vals[t.pos] = v
			}
		} else {
			t.Vals = append(t.Vals, 0)
		}
	} else {
		v = uint32(t.rng.next() % uint64(n))
		t.Vals = append(t.Vals, v)
	}
	t.pos++
	if t.Trace {
		t.Labels = append(t.Labels, label)
	}
	return int(v)
}

// Bool is Choose(2) != 0 with probability 1/den of being true in generate mode.
// The tape records 0/1 so that replay and reduction stay simple.
func (t *Tape) Chance(num, den int, label string) bool {
	if num <= 0 {
		return false
	}
	var v uint32
	if t.replay || t.pos < t.prefix {
		if t.pos < len(t.Vals) {
			v = t.Vals[t.pos]
			if v > 1 {
				v = 1
				t.Vals[t.pos] = 1
			}
		} else {
			t.Vals = append(t.Vals, 0)
		}
	} else {
		if int(t.rng.next()%uint64(den)) < num {
			v = 1
		}
		t.Vals = append(t.Vals, v)
	}
	t.pos++
	if t.Trace {
		t.Labels = append(t.Labels, label)
	}
	return v == 1
}

// Pos is the number of choices consumed so far.
func (t *Tape) Pos() int { return t.pos }

// Used returns the consumed prefix of the tape.
func (t *Tape) Used() []uint32 {
	if t.pos > len(t.Vals) {
		return t.Vals
	}
	return t.Vals[:t.pos]
}

// pcg is a small PCG-XSH-RR 64/32 pair glued to 64 bit output; deterministic across platforms.
type pcg struct{ state, inc uint64 }

func (p *pcg) seed(s uint64) {
	p.state = 0
	p.inc = (SplitMix64(s) << 1) | 1
	p.step()
	p.state += SplitMix64(s ^ 0x9e3779b97f4a7c15)
	p.step()
}
func (p *pcg) step() { p.state = p.state*6364136223846793005 + p.inc }
func (p *pcg) next32() uint32 {
	old := p.state
	p.step()
	xs := uint32(((old >> 18) ^ old) >> 27)
	rot := uint32(old >> 59)
	return (xs >> rot) | (xs << ((-rot) & 31))
}
func (p *pcg) next() uint64 { return uint64(p.next32())<<32 | uint64(p.next32()) }

// SplitMix64 is the usual seed scrambler.
func SplitMix64(x uint64) uint64 {
	x += 0x9e3779b97f4a7c15
	x = (x ^ (x >> 30)) * 0xbf58476d1ce4e5b9
	x = (x ^ (x >> 27)) * 0x94d049bb133111eb
	return x ^ (x >> 31)
}

// Rand is a derived deterministic byte/number source (payloads, DRBG). It is seeded from one
// tape choice so that a single tape value stands for arbitrarily many derived bytes.
type Rand struct{ p pcg }

// NewRand seeds a derived generator.
func NewRand(seed uint64) *Rand { r := &Rand{}; r.p.seed(seed); return r }

// Fill fills b.
func (r *Rand) Fill(b []byte) {
	for i := 0; i < len(b); {
		v := r.p.next()
		for k := 0; k < 8 && i < len(b); k++ {
			b[i] = byte(v)
			v >>= 8
			i++
		}
	}
}

// Intn returns a value in [0,n).
func (r *Rand) Intn(n int) int {
	if n <= 1 {
		return 0
	}
	return int(r.p.next() % uint64(n))
}
