// Package ssync mirrors the parts of package sync used by the code under test. Inside a
// simulation every operation is a scheduling point and blocking is modelled; outside it falls
// through to the real primitive.
package ssync

import (
	"sync"

	"verif/sim/simrt"
)

// Locker is sync.Locker.
type Locker = sync.Locker

// Mutex mirrors sync.Mutex.
type Mutex struct {
	real sync.Mutex
	held bool
}

func (m *Mutex) Lock() {
	s := simrt.S()
	if s == nil {
		m.real.Lock()
		return
	}
	if s.Ending() {
		return
	}
	s.Point(simrt.KSync, "Mutex.Lock")
	s.Block("Mutex.Lock", func() bool { return !m.held })
	m.held = true
	s.Acquire(m)
}

func (m *Mutex) TryLock() bool {
	s := simrt.S()
	if s == nil {
		return m.real.TryLock()
	}
	if s.Ending() {
		return true
	}
	s.Point(simrt.KSync, "Mutex.TryLock")
	if m.held {
		return false
	}
	m.held = true
	s.Acquire(m)
	return true
}

func (m *Mutex) Unlock() {
	s := simrt.S()
	if s == nil {
		m.real.Unlock()
		return
	}
	if s.Ending() {
		return
	}
	if !m.held {
		panic("sync: unlock of unlocked mutex")
	}
	s.Release(m)
	m.held = false
	s.Point(simrt.KSync, "Mutex.Unlock")
}

// RWMutex mirrors sync.RWMutex including writer preference.
type RWMutex struct {
	real           sync.RWMutex
	readers        int
	writer         bool
	writersWaiting int
}

func (m *RWMutex) RLock() {
	s := simrt.S()
	if s == nil {
		m.real.RLock()
		return
	}
	if s.Ending() {
		return
	}
	s.Point(simrt.KSync, "RWMutex.RLock")
	s.Block("RWMutex.RLock", func() bool { return !m.writer && m.writersWaiting == 0 })
	m.readers++
	s.Acquire(m)
}

func (m *RWMutex) TryRLock() bool {
	s := simrt.S()
	if s == nil {
		return m.real.TryRLock()
	}
	if s.Ending() {
		return true
	}
	s.Point(simrt.KSync, "RWMutex.TryRLock")
	if m.writer || m.writersWaiting > 0 {
		return false
	}
	m.readers++
	s.Acquire(m)
	return true
}

func (m *RWMutex) RUnlock() {
	s := simrt.S()
	if s == nil {
		m.real.RUnlock()
		return
	}
	if s.Ending() {
		return
	}
	if m.readers <= 0 {
		panic("sync: RUnlock of unlocked RWMutex")
	}
	s.Release(&m.readers) // read sections are ordered before the next write section, not among themselves
	m.readers--
	s.Point(simrt.KSync, "RWMutex.RUnlock")
}

func (m *RWMutex) Lock() {
	s := simrt.S()
	if s == nil {
		m.real.Lock()
		return
	}
	if s.Ending() {
		return
	}
	s.Point(simrt.KSync, "RWMutex.Lock")
	m.writersWaiting++
	s.Block("RWMutex.Lock", func() bool { return !m.writer && m.readers == 0 })
	if s.Ending() {
		return
	}
	m.writersWaiting--
	m.writer = true
	s.Acquire(m)
	s.Acquire(&m.readers)
}

func (m *RWMutex) TryLock() bool {
	s := simrt.S()
	if s == nil {
		return m.real.TryLock()
	}
	if s.Ending() {
		return true
	}
	s.Point(simrt.KSync, "RWMutex.TryLock")
	if m.writer || m.readers > 0 {
		return false
	}
	m.writer = true
	s.Acquire(m)
	s.Acquire(&m.readers)
	return true
}

func (m *RWMutex) Unlock() {
	s := simrt.S()
	if s == nil {
		m.real.Unlock()
		return
	}
	if s.Ending() {
		return
	}
	if !m.writer {
		panic("sync: Unlock of unlocked RWMutex")
	}
	s.Release(m)
	m.writer = false
	s.Point(simrt.KSync, "RWMutex.Unlock")
}

type rlocker RWMutex

func (r *rlocker) Lock()   { (*RWMutex)(r).RLock() }
func (r *rlocker) Unlock() { (*RWMutex)(r).RUnlock() }

// RLocker mirrors (*sync.RWMutex).RLocker.
func (m *RWMutex) RLocker() Locker { return (*rlocker)(m) }

type condWaiter struct{ signaled bool }

// Cond mirrors sync.Cond.
type Cond struct {
	L       Locker
	real    *sync.Cond
	rmu     sync.Mutex
	waiters []*condWaiter
}

// NewCond mirrors sync.NewCond.
func NewCond(l Locker) *Cond { return &Cond{L: l} }

func (c *Cond) realCond() *sync.Cond {
	c.rmu.Lock()
	defer c.rmu.Unlock()
	if c.real == nil {
		c.real = sync.NewCond(c.L)
	}
	return c.real
}

func (c *Cond) Wait() {
	s := simrt.S()
	if s == nil {
		c.realCond().Wait()
		return
	}
	if s.Ending() {
		return
	}
	// a scheduling point before the caller becomes a waiter: a Signal or Broadcast issued by a task that
	// does not hold L (a lock-free counter reaching zero, say) can fall between the caller's check of
	// its condition and this registration - the lost wake-up
	s.Point(simrt.KSync, "Cond.Wait")
	w := &condWaiter{}
	c.waiters = append(c.waiters, w)
	c.L.Unlock()
	s.Block("Cond.Wait", func() bool { return w.signaled })
	if s.Ending() {
		return
	}
	c.L.Lock()
	s.Acquire(c)
}

func (c *Cond) Signal() {
	s := simrt.S()
	if s == nil {
		c.realCond().Signal()
		return
	}
	if s.Ending() {
		return
	}
	s.Point(simrt.KSync, "Cond.Signal")
	s.Release(c)
	if len(c.waiters) == 0 {
		return
	}
	i := s.Tape.Choose(len(c.waiters), "cond.signal")
	c.waiters[i].signaled = true
	c.waiters = append(c.waiters[:i], c.waiters[i+1:]...)
}

func (c *Cond) Broadcast() {
	s := simrt.S()
	if s == nil {
		c.realCond().Broadcast()
		return
	}
	if s.Ending() {
		return
	}
	s.Point(simrt.KSync, "Cond.Broadcast")
	s.Release(c)
	woke := len(c.waiters) > 0
	for _, w := range c.waiters {
		w.signaled = true
	}
	c.waiters = nil
	if woke {
		s.Point(simrt.KSync, "Cond.woken")
	}
}

// Once mirrors sync.Once.
type Once struct {
	real    sync.Once
	done    bool
	running bool
}

func (o *Once) Do(f func()) {
	s := simrt.S()
	if s == nil {
		o.real.Do(f)
		return
	}
	if s.Ending() {
		if !o.done && !o.running {
			o.running = true
			defer func() { o.done = true }()
			f()
		}
		return
	}
	s.Point(simrt.KSync, "Once.Do")
	if o.done {
		s.Acquire(o)
		return
	}
	if o.running {
		s.Block("Once.Do", func() bool { return o.done })
		s.Acquire(o)
		return
	}
	o.running = true
	defer func() { s.Release(o); o.done = true }()
	f()
}

// WaitGroup mirrors sync.WaitGroup.
type WaitGroup struct {
	real sync.WaitGroup
	n    int
}

func (w *WaitGroup) Add(delta int) {
	s := simrt.S()
	if s == nil {
		w.real.Add(delta)
		return
	}
	if s.Ending() {
		return
	}
	s.Point(simrt.KSync, "WaitGroup.Add")
	if delta < 0 {
		s.Release(w)
	}
	w.n += delta
	if w.n < 0 {
		panic("sync: negative WaitGroup counter")
	}
	if delta < 0 && w.n == 0 {
		s.Point(simrt.KSync, "WaitGroup.released") // the waiter may run before this task's next statement
	}
}

func (w *WaitGroup) Done() { w.Add(-1) }

func (w *WaitGroup) Wait() {
	s := simrt.S()
	if s == nil {
		w.real.Wait()
		return
	}
	if s.Ending() {
		return
	}
	s.Point(simrt.KSync, "WaitGroup.Wait")
	s.Block("WaitGroup.Wait", func() bool { return w.n == 0 })
	s.Acquire(w)
}

// OnceFunc / OnceValue are not mirrored; the instrumenter rejects any other member of sync.

// Pool mirrors sync.Pool. Under simulation it is a deterministic LIFO free list (sync.Pool may keep
// or drop any item at any time, so this is one of its legal behaviours and the one that recycles most).
type Pool struct {
	New   func() any
	real  sync.Pool
	items []any
}

func (p *Pool) Get() any {
	s := simrt.S()
	if s == nil {
		p.real.New = p.New
		return p.real.Get()
	}
	if !s.Ending() {
		s.Point(simrt.KSync, "Pool.Get")
		s.Acquire(p)
	}
	if n := len(p.items); n > 0 {
		x := p.items[n-1]
		p.items = p.items[:n-1]
		return x
	}
	if p.New != nil {
		return p.New()
	}
	return nil
}

func (p *Pool) Put(x any) {
	s := simrt.S()
	if s == nil {
		p.real.Put(x)
		return
	}
	if x == nil {
		return
	}
	if !s.Ending() {
		s.Point(simrt.KSync, "Pool.Put")
		s.Release(p)
	}
	p.items = append(p.items, x)
	if !s.Ending() {
		// another goroutine may take the object before the caller's next statement (a caller that keeps
		// using what it has just put back shares it from here on)
		s.Point(simrt.KSync, "Pool.Put.done")
	}
}

// Map mirrors sync.Map (every operation is a scheduling point; Range iterates a snapshot in
// insertion order, which is deterministic).
type Map struct {
	real sync.Map
	keys []any
	vals map[any]any
}

func (m *Map) pt(site string) *simrt.Sim {
	s := simrt.S()
	if s != nil && !s.Ending() {
		s.Point(simrt.KSync, site)
		s.AcqRel(m)
	}
	return s
}

func (m *Map) Load(key any) (any, bool) {
	if s := m.pt("Map.Load"); s == nil {
		return m.real.Load(key)
	}
	v, ok := m.vals[key]
	return v, ok
}

func (m *Map) Store(key, value any) {
	if s := m.pt("Map.Store"); s == nil {
		m.real.Store(key, value)
		return
	}
	if m.vals == nil {
		m.vals = map[any]any{}
	}
	if _, ok := m.vals[key]; !ok {
		m.keys = append(m.keys, key)
	}
	m.vals[key] = value
}

func (m *Map) LoadOrStore(key, value any) (any, bool) {
	if s := m.pt("Map.LoadOrStore"); s == nil {
		return m.real.LoadOrStore(key, value)
	}
	if v, ok := m.vals[key]; ok {
		return v, true
	}
	if m.vals == nil {
		m.vals = map[any]any{}
	}
	m.keys = append(m.keys, key)
	m.vals[key] = value
	return value, false
}

func (m *Map) LoadAndDelete(key any) (any, bool) {
	if s := m.pt("Map.LoadAndDelete"); s == nil {
		return m.real.LoadAndDelete(key)
	}
	v, ok := m.vals[key]
	if ok {
		m.del(key)
	}
	return v, ok
}

func (m *Map) del(key any) {
	delete(m.vals, key)
	for i, k := range m.keys {
		if k == key {
			m.keys = append(m.keys[:i:i], m.keys[i+1:]...)
			break
		}
	}
}

func (m *Map) Delete(key any) {
	if s := m.pt("Map.Delete"); s == nil {
		m.real.Delete(key)
		return
	}
	m.del(key)
}

func (m *Map) Range(f func(key, value any) bool) {
	if s := m.pt("Map.Range"); s == nil {
		m.real.Range(f)
		return
	}
	for _, k := range append([]any(nil), m.keys...) {
		v, ok := m.vals[k]
		if !ok {
			continue
		}
		if !f(k, v) {
			return
		}
	}
}
