// Package ssync mirrors the parts of package sync used by the code under test. Inside a
// simulation every operation is a scheduling point and blocking is modelled; outside it falls
// through to the real primitive.
package ssync

import (
	"sync"

	"verif/sim/simrt"
)

// Locker is sync.Locker.
type Locker = sync.Locker

// Mutex mirrors sync.Mutex.
type Mutex struct {
	real sync.Mutex
	held bool
}

func (m *Mutex) Lock() {
	s := simrt.S()
	if s == nil {
		m.real.Lock()
		return
	}
	if s.Ending() {
		return
	}
	s.Point(simrt.KSync, "Mutex.Lock")
	s.Block("Mutex.Lock", func() bool { return !m.held })
	m.held = true
}

func (m *Mutex) TryLock() bool {
	s := simrt.S()
	if s == nil {
		return m.real.TryLock()
	}
	if s.Ending() {
		return true
	}
	s.Point(simrt.KSync, "Mutex.TryLock")
	if m.held {
		return false
	}
	m.held = true
	return true
}

func (m *Mutex) Unlock() {
	s := simrt.S()
	if s == nil {
		m.real.Unlock()
		return
	}
	if s.Ending() {
		return
	}
	if !m.held {
		panic("sync: unlock of unlocked mutex")
	}
	m.held = false
	s.Point(simrt.KSync, "Mutex.Unlock")
}

// RWMutex mirrors sync.RWMutex including writer preference.
type RWMutex struct {
	real           sync.RWMutex
	readers        int
	writer         bool
	writersWaiting int
}

func (m *RWMutex) RLock() {
	s := simrt.S()
	if s == nil {
		m.real.RLock()
		return
	}
	if s.Ending() {
		return
	}
	s.Point(simrt.KSync, "RWMutex.RLock")
	s.Block("RWMutex.RLock", func() bool { return !m.writer && m.writersWaiting == 0 })
	m.readers++
}

func (m *RWMutex) TryRLock() bool {
	s := simrt.S()
	if s == nil {
		return m.real.TryRLock()
	}
	if s.Ending() {
		return true
	}
	s.Point(simrt.KSync, "RWMutex.TryRLock")
	if m.writer || m.writersWaiting > 0 {
		return false
	}
	m.readers++
	return true
}

func (m *RWMutex) RUnlock() {
	s := simrt.S()
	if s == nil {
		m.real.RUnlock()
		return
	}
	if s.Ending() {
		return
	}
	if m.readers <= 0 {
		panic("sync: RUnlock of unlocked RWMutex")
	}
	m.readers--
	s.Point(simrt.KSync, "RWMutex.RUnlock")
}

func (m *RWMutex) Lock() {
	s := simrt.S()
	if s == nil {
		m.real.Lock()
		return
	}
	if s.Ending() {
		return
	}
	s.Point(simrt.KSync, "RWMutex.Lock")
	m.writersWaiting++
	s.Block("RWMutex.Lock", func() bool { return !m.writer && m.readers == 0 })
	if s.Ending() {
		return
	}
	m.writersWaiting--
	m.writer = true
}

func (m *RWMutex) TryLock() bool {
	s := simrt.S()
	if s == nil {
		return m.real.TryLock()
	}
	if s.Ending() {
		return true
	}
	s.Point(simrt.KSync, "RWMutex.TryLock")
	if m.writer || m.readers > 0 {
		return false
	}
	m.writer = true
	return true
}

func (m *RWMutex) Unlock() {
	s := simrt.S()
	if s == nil {
		m.real.Unlock()
		return
	}
	if s.Ending() {
		return
	}
	if !m.writer {
		panic("sync: Unlock of unlocked RWMutex")
	}
	m.writer = false
	s.Point(simrt.KSync, "RWMutex.Unlock")
}

type rlocker RWMutex

func (r *rlocker) Lock()   { (*RWMutex)(r).RLock() }
func (r *rlocker) Unlock() { (*RWMutex)(r).RUnlock() }

// RLocker mirrors (*sync.RWMutex).RLocker.
func (m *RWMutex) RLocker() Locker { return (*rlocker)(m) }

type condWaiter struct{ signaled bool }

// Cond mirrors sync.Cond.
type Cond struct {
	L       Locker
	real    *sync.Cond
	rmu     sync.Mutex
	waiters []*condWaiter
}

// NewCond mirrors sync.NewCond.
func NewCond(l Locker) *Cond { return &Cond{L: l} }

func (c *Cond) realCond() *sync.Cond {
	c.rmu.Lock()
	defer c.rmu.Unlock()
	if c.real == nil {
		c.real = sync.NewCond(c.L)
	}
	return c.real
}

func (c *Cond) Wait() {
	s := simrt.S()
	if s == nil {
		c.realCond().Wait()
		return
	}
	if s.Ending() {
		return
	}
	w := &condWaiter{}
	c.waiters = append(c.waiters, w)
	c.L.Unlock()
	s.Block("Cond.Wait", func() bool { return w.signaled })
	if s.Ending() {
		return
	}
	c.L.Lock()
}

func (c *Cond) Signal() {
	s := simrt.S()
	if s == nil {
		c.realCond().Signal()
		return
	}
	if s.Ending() {
		return
	}
	s.Point(simrt.KSync, "Cond.Signal")
	if len(c.waiters) == 0 {
		return
	}
	i := s.Tape.Choose(len(c.waiters), "cond.signal")
	c.waiters[i].signaled = true
	c.waiters = append(c.waiters[:i], c.waiters[i+1:]...)
}

func (c *Cond) Broadcast() {
	s := simrt.S()
	if s == nil {
		c.realCond().Broadcast()
		return
	}
	if s.Ending() {
		return
	}
	s.Point(simrt.KSync, "Cond.Broadcast")
	for _, w := range c.waiters {
		w.signaled = true
	}
	c.waiters = nil
}

// Once mirrors sync.Once.
type Once struct {
	real    sync.Once
	done    bool
	running bool
}

func (o *Once) Do(f func()) {
	s := simrt.S()
	if s == nil {
		o.real.Do(f)
		return
	}
	if s.Ending() {
		if !o.done && !o.running {
			o.running = true
			defer func() { o.done = true }()
			f()
		}
		return
	}
	s.Point(simrt.KSync, "Once.Do")
	if o.done {
		return
	}
	if o.running {
		s.Block("Once.Do", func() bool { return o.done })
		return
	}
	o.running = true
	defer func() { o.done = true }()
	f()
}

// WaitGroup mirrors sync.WaitGroup.
type WaitGroup struct {
	real sync.WaitGroup
	n    int
}

func (w *WaitGroup) Add(delta int) {
	s := simrt.S()
	if s == nil {
		w.real.Add(delta)
		return
	}
	if s.Ending() {
		return
	}
	s.Point(simrt.KSync, "WaitGroup.Add")
	w.n += delta
	if w.n < 0 {
		panic("sync: negative WaitGroup counter")
	}
}

func (w *WaitGroup) Done() { w.Add(-1) }

func (w *WaitGroup) Wait() {
	s := simrt.S()
	if s == nil {
		w.real.Wait()
		return
	}
	if s.Ending() {
		return
	}
	s.Point(simrt.KSync, "WaitGroup.Wait")
	s.Block("WaitGroup.Wait", func() bool { return w.n == 0 })
}

// OnceFunc / OnceValue are not mirrored; the instrumenter rejects any other member of sync.
