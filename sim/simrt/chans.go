package simrt

import (
	"reflect"
	"runtime"
)

// Channel emulation: instrumented code keeps its real channel values (so types are untouched)
// but every operation on them is redirected here and performed on a side table keyed by the
// channel's identity. Unbuffered channels are rendezvous, buffered ones queues of cap(ch).

type sendItem struct {
	val   any
	taken bool
}

type emuChan struct {
	cap    int
	buf    []any
	sendq  []*sendItem
	closed bool
}

func (s *Sim) emu(ch any, capacity int) *emuChan {
	p := reflect.ValueOf(ch).Pointer()
	e := s.chans[p]
	if e == nil {
		e = &emuChan{cap: capacity}
		s.chans[p] = e
	}
	return e
}

func isNilChan(ch any) bool { return reflect.ValueOf(ch).IsNil() }

// ChanSend is `ch <- v`.
func ChanSend[T any](ch chan<- T, v T) {
	s := S()
	if s == nil {
		ch <- v
		return
	}
	if s.ending {
		return
	}
	s.Point(KSync, "chan.send")
	if ch == nil {
		s.Block("chan.send(nil)", func() bool { return false })
		return
	}
	e := s.emu(ch, cap(ch))
	if e.closed {
		panic("send on closed channel")
	}
	if len(e.buf) < e.cap {
		e.buf = append(e.buf, v)
		return
	}
	it := &sendItem{val: v}
	e.sendq = append(e.sendq, it)
	s.Block("chan.send", func() bool { return it.taken || e.closed })
	if s.ending {
		return
	}
	if !it.taken && e.closed {
		panic("send on closed channel")
	}
}

// ChanRecv2 is `v, ok := <-ch`.
func ChanRecv2[T any](ch <-chan T) (T, bool) {
	var zero T
	s := S()
	if s == nil {
		v, ok := <-ch
		return v, ok
	}
	if s.ending {
		return zero, false
	}
	s.Point(KSync, "chan.recv")
	if ch == nil {
		s.Block("chan.recv(nil)", func() bool { return false })
		return zero, false
	}
	e := s.emu(ch, cap(ch))
	for {
		if len(e.buf) > 0 {
			v := e.buf[0]
			e.buf = e.buf[1:]
			if len(e.sendq) > 0 {
				it := e.sendq[0]
				e.sendq = e.sendq[1:]
				it.taken = true
				e.buf = append(e.buf, it.val)
			}
			return v.(T), true
		}
		if len(e.sendq) > 0 {
			it := e.sendq[0]
			e.sendq = e.sendq[1:]
			it.taken = true
			return it.val.(T), true
		}
		if e.closed {
			return zero, false
		}
		s.Block("chan.recv", func() bool { return len(e.buf) > 0 || len(e.sendq) > 0 || e.closed })
		if s.ending {
			return zero, false
		}
	}
}

// ChanRecv is `<-ch`.
func ChanRecv[T any](ch <-chan T) T {
	v, _ := ChanRecv2(ch)
	return v
}

// ChanClose is `close(ch)`.
func ChanClose[T any](ch chan<- T) {
	s := S()
	if s == nil {
		close(ch)
		return
	}
	if s.ending {
		return
	}
	s.Point(KSync, "chan.close")
	if ch == nil {
		panic("close of nil channel")
	}
	e := s.emu(ch, cap(ch))
	if e.closed {
		panic("close of closed channel")
	}
	e.closed = true
}

// GoFunc is the rewritten `go` statement.
func GoFunc(fn func()) {
	s := S()
	if s == nil {
		go fn()
		return
	}
	if s.ending {
		return
	}
	s.Go("go", fn)
}

// SetFinalizer replaces runtime.SetFinalizer in instrumented code: finalizers are not explored
// by the simulation (GC is off during a run), so inside a run none is registered.
func SetFinalizer(obj any, finalizer any) {
	if current.Load() != nil {
		return
	}
	runtime.SetFinalizer(obj, finalizer)
}
