package simrt

import (
	"reflect"
	"runtime"
	"sync"
	"time"
)

// Channel emulation: instrumented code keeps its real channel values (so types are untouched)
// but every operation on them is redirected here and performed on a side table keyed by the
// channel's identity. Unbuffered channels are rendezvous, buffered ones queues of cap(ch).

type sendItem struct {
	val   any
	taken bool
}

type emuChan struct {
	cap    int
	buf    []any
	sendq  []*sendItem
	closed bool
	// tasks blocked in a plain receive / in a select with a receive case on this channel
	recvWaiting, selRecvWaiting int
	// foreign: uninstrumented code closed or sent on the real channel (its own ordering is unknown)
	foreign bool
}

// chanAcquire is the receive side of the channel's happens-before edge.
func (s *Sim) chanAcquire(e *emuChan) {
	if e.foreign {
		s.Barrier()
	}
	s.AcqRel(e)
}

// pollForeign notices what code outside the instrumented packages did to the real channel (the
// context package closing a Done channel): emulated channels never see real operations, so for them
// this finds nothing.
func (e *emuChan) pollForeign(ch any) {
	if e.closed {
		return
	}
	v := reflect.ValueOf(ch)
	if v.Type().ChanDir()&reflect.RecvDir == 0 {
		return
	}
	for {
		x, ok := v.TryRecv()
		if !ok && !x.IsValid() {
			return // nothing there
		}
		e.foreign = true
		if !ok {
			e.closed = true
			return
		}
		e.buf = append(e.buf, x.Interface())
	}
}

func (e *emuChan) recvReady() bool { return len(e.buf) > 0 || len(e.sendq) > 0 || e.closed }

// takeRecv performs a receive that recvReady promised.
func (e *emuChan) takeRecv() (any, bool) {
	if len(e.buf) > 0 {
		v := e.buf[0]
		e.buf = e.buf[1:]
		if len(e.sendq) > 0 {
			it := e.sendq[0]
			e.sendq = e.sendq[1:]
			it.taken = true
			e.buf = append(e.buf, it.val)
		}
		return v, true
	}
	if len(e.sendq) > 0 {
		it := e.sendq[0]
		e.sendq = e.sendq[1:]
		it.taken = true
		return it.val, true
	}
	return nil, false
}

func (s *Sim) emu(ch any, capacity int) *emuChan {
	p := reflect.ValueOf(ch).Pointer()
	e := s.chans[p]
	if e == nil {
		e = &emuChan{cap: capacity}
		s.chans[p] = e
	}
	return e
}

func isNilChan(ch any) bool { return reflect.ValueOf(ch).IsNil() }

// ChanSend is `ch <- v`.
func ChanSend[T any](ch chan<- T, v T) {
	s := S()
	if s == nil {
		ch <- v
		return
	}
	if s.ending {
		return
	}
	s.Point(KSync, "chan.send")
	if ch == nil {
		s.Block("chan.send(nil)", func() bool { return false })
		return
	}
	e := s.emu(ch, cap(ch))
	if e.closed {
		panic("send on closed channel")
	}
	s.Release(e)
	if len(e.buf) < e.cap {
		e.buf = append(e.buf, v)
		s.Point(KSync, "chan.sent") // the receiver may run before the sender's next statement
		return
	}
	it := &sendItem{val: v}
	e.sendq = append(e.sendq, it)
	s.Block("chan.send", func() bool { return it.taken || e.closed })
	if s.ending {
		return
	}
	s.Acquire(e) // the receive is synchronised before the completion of the send
	if !it.taken && e.closed {
		panic("send on closed channel")
	}
}

// ChanRecv2 is `v, ok := <-ch`.
func ChanRecv2[T any](ch <-chan T) (T, bool) {
	var zero T
	s := S()
	if s == nil {
		v, ok := <-ch
		return v, ok
	}
	if s.ending {
		return zero, false
	}
	s.Point(KSync, "chan.recv")
	if ch == nil {
		s.Block("chan.recv(nil)", func() bool { return false })
		return zero, false
	}
	e := s.emu(ch, cap(ch))
	for {
		e.pollForeign(ch)
		if e.recvReady() {
			v, ok := e.takeRecv()
			s.chanAcquire(e)
			if !ok {
				return zero, false
			}
			return v.(T), true
		}
		e.recvWaiting++
		s.Block("chan.recv", func() bool { e.pollForeign(ch); return e.recvReady() })
		e.recvWaiting--
		if s.ending {
			return zero, false
		}
	}
}

// ChanRecv is `<-ch`.
func ChanRecv[T any](ch <-chan T) T {
	v, _ := ChanRecv2(ch)
	return v
}

// ChanClose is `close(ch)`.
func ChanClose[T any](ch chan<- T) {
	s := S()
	if s == nil {
		close(ch)
		return
	}
	if s.ending {
		return
	}
	s.Point(KSync, "chan.close")
	if ch == nil {
		panic("close of nil channel")
	}
	e := s.emu(ch, cap(ch))
	if e.closed {
		panic("close of closed channel")
	}
	s.Release(e)
	e.closed = true
	s.Point(KSync, "chan.closed") // whoever waits for the close may run before the closer's next statement
}

// GoFunc is the rewritten `go` statement.
func GoFunc(fn func()) {
	s := S()
	if s == nil {
		go fn()
		return
	}
	if s.ending {
		return
	}
	s.Go("go", fn)
}

// SetFinalizer replaces runtime.SetFinalizer in instrumented code. The collector does not run during
// a simulation, so inside a run the finalizer is only recorded. An engine can run it either because
// it knows the object to be unreachable (RunFinalizers: a secret whose creation failed and was never
// handed out) or because the real collector says so (Sim.TrackReachability + CollectAndFinalize: the
// object is then not kept alive by the record, a real finalizer only notes that it was collected).
func SetFinalizer(obj any, finalizer any) {
	s := current.Load()
	if s == nil {
		runtime.SetFinalizer(obj, finalizer)
		return
	}
	id := reflect.ValueOf(obj).Pointer()
	if finalizer == nil {
		for i := range s.finalizers {
			if s.finalizers[i].id == id {
				s.finalizers[i].fn = nil
			}
		}
		if s.TrackReachability {
			runtime.SetFinalizer(obj, nil)
		}
		return
	}
	rec := &finalizerRec{id: id, fn: finalizer}
	if s.TrackReachability {
		// the record must not keep the object alive: the real finalizer hands it back when, and only
		// when, the collector found it unreachable
		runtime.SetFinalizer(obj, func(o any) { rec.mu.Lock(); rec.obj, rec.collected = o, true; rec.mu.Unlock() })
	} else {
		rec.obj = obj
	}
	s.finalizers = append(s.finalizers, rec)
}

type finalizerRec struct {
	id        uintptr
	fn        any
	mu        sync.Mutex
	obj       any
	collected bool
}

// Finalizers is the number of finalizers registered so far in this run.
func (s *Sim) Finalizers() int { return len(s.finalizers) }

func (s *Sim) runFinalizer(f *finalizerRec) {
	fn, obj := f.fn, f.obj
	f.fn = nil
	reflect.ValueOf(fn).Call([]reflect.Value{reflect.ValueOf(obj)})
}

// RunFinalizers runs (once) the finalizers registered with indices [from, to): the harness vouches
// that their objects are unreachable.
func (s *Sim) RunFinalizers(from, to int) int {
	n := 0
	for i := from; i < to && i < len(s.finalizers); i++ {
		if f := s.finalizers[i]; f.fn != nil && f.obj != nil {
			s.runFinalizer(f)
			n++
		}
	}
	return n
}

// CollectAndFinalize runs the real collector and then, as tasks' finalizers would, the recorded
// finalizer of every object it found unreachable (Sim.TrackReachability must have been set before
// the objects were created).
func (s *Sim) CollectAndFinalize() int {
	for i := 0; i < 3; i++ {
		runtime.GC()
		time.Sleep(2 * time.Millisecond) // real time: the runtime's finalizer goroutine has to get a turn
	}
	n := 0
	for _, f := range s.finalizers {
		f.mu.Lock()
		ready := f.collected && f.fn != nil
		f.mu.Unlock()
		if ready {
			s.runFinalizer(f)
			n++
		}
	}
	return n
}

// ChanLen is `len(ch)`.
func ChanLen[T any](ch chan T) int {
	s := S()
	if s == nil || ch == nil {
		return len(ch)
	}
	return len(s.emu(ch, cap(ch)).buf)
}

// Offer is a non-blocking send performed by the simulator itself (a timer firing): the value is
// dropped when the buffer is full, as the runtime's timers do.
func Offer[T any](s *Sim, ch chan T, v T) {
	e := s.emu(ch, cap(ch))
	s.Release(e)
	if len(e.buf) < e.cap {
		e.buf = append(e.buf, v)
	}
}

// Drain empties the emulated buffer of ch (Timer.Stop/Reset semantics of Go >= 1.23).
func Drain[T any](s *Sim, ch chan T) {
	s.emu(ch, cap(ch)).buf = nil
}

// ---- select ----

// SelCase is one communication clause of a rewritten select statement.
type SelCase struct {
	send bool
	ch   any
	capn int
	val  any
	null bool
}

// SelRecv is `case ... <-ch:`.
func SelRecv[T any](ch <-chan T) SelCase { return SelCase{ch: ch, capn: cap(ch), null: ch == nil} }

// SelSend is `case ch <- v:`.
func SelSend[T any](ch chan<- T, v T) SelCase {
	return SelCase{send: true, ch: ch, capn: cap(ch), val: v, null: ch == nil}
}

// Selected is the outcome of a select: the index of the clause that proceeded (-1: default).
type Selected struct {
	I  int
	v  any
	ok bool
}

// SelGot2 is the `v, ok` of the receive clause that proceeded.
func SelGot2[T any](_ <-chan T, r *Selected) (T, bool) {
	var zero T
	if r.v == nil {
		return zero, r.ok
	}
	return r.v.(T), r.ok
}

// SelGot is the value of the receive clause that proceeded.
func SelGot[T any](ch <-chan T, r *Selected) T {
	v, _ := SelGot2(ch, r)
	return v
}

// Select is the rewritten select statement: among the clauses that can proceed one is chosen by the
// tape (the language says "uniform pseudo-random"); with none and no default the task blocks.
func Select(hasDefault bool, cases ...SelCase) *Selected {
	s := S()
	if s == nil {
		return realSelect(hasDefault, cases)
	}
	if s.ending {
		if !hasDefault {
			runtime.Goexit() // the run is over: a clause-less outcome does not exist, the task just ends
		}
		return &Selected{I: -1}
	}
	s.Point(KSync, "select")
	emus := make([]*emuChan, len(cases))
	for i, c := range cases {
		if !c.null {
			emus[i] = s.emu(c.ch, c.capn)
		}
	}
	ready := func() []int {
		var r []int
		for i, c := range cases {
			e := emus[i]
			if e == nil {
				continue
			}
			if c.send {
				if e.closed || len(e.buf) < e.cap || e.recvWaiting-len(e.sendq) > 0 {
					r = append(r, i)
				} else if e.cap == 0 && e.selRecvWaiting > 0 {
					s.Unsupported("a select-send and a select-receive meet on an unbuffered channel")
				}
				continue
			}
			e.pollForeign(c.ch)
			if e.recvReady() {
				r = append(r, i)
			}
		}
		return r
	}
	for {
		r := ready()
		if len(r) > 0 {
			i := r[0]
			if len(r) > 1 {
				i = r[s.Tape.Choose(len(r), "select.clause")]
			}
			c, e := cases[i], emus[i]
			if c.send {
				if e.closed {
					panic("send on closed channel")
				}
				s.Release(e)
				if len(e.buf) < e.cap {
					e.buf = append(e.buf, c.val)
				} else {
					e.sendq = append(e.sendq, &sendItem{val: c.val})
				}
				return &Selected{I: i}
			}
			v, ok := e.takeRecv()
			s.chanAcquire(e)
			return &Selected{I: i, v: v, ok: ok}
		}
		if hasDefault {
			return &Selected{I: -1}
		}
		for i, c := range cases {
			if emus[i] != nil && !c.send {
				emus[i].selRecvWaiting++
			}
		}
		s.Block("select", func() bool { return len(ready()) > 0 })
		for i, c := range cases {
			if emus[i] != nil && !c.send {
				emus[i].selRecvWaiting--
			}
		}
		if s.ending {
			runtime.Goexit()
		}
	}
}

// realSelect runs the clauses on the real channels (instrumented code used outside a simulation).
func realSelect(hasDefault bool, cases []SelCase) *Selected {
	var rc []reflect.SelectCase
	var idx []int
	for i, c := range cases {
		if c.null {
			continue
		}
		if c.send {
			rc = append(rc, reflect.SelectCase{Dir: reflect.SelectSend, Chan: reflect.ValueOf(c.ch), Send: reflect.ValueOf(c.val)})
		} else {
			rc = append(rc, reflect.SelectCase{Dir: reflect.SelectRecv, Chan: reflect.ValueOf(c.ch)})
		}
		idx = append(idx, i)
	}
	if hasDefault {
		rc = append(rc, reflect.SelectCase{Dir: reflect.SelectDefault})
		idx = append(idx, -1)
	}
	if len(rc) == 0 {
		select {}
	}
	n, v, ok := reflect.Select(rc)
	out := &Selected{I: idx[n], ok: ok}
	if v.IsValid() {
		out.v = v.Interface()
	}
	return out
}
