package simrt_test

import (
	"testing"

	"verif/sim/simrt"
	"verif/sim/simrt/ssync"
)

func runOnce(seed uint64, strat simrt.Strategy) (uint64, int, *simrt.Failure) {
	tape := simrt.NewTape(seed)
	total := 0
	s := simrt.Run(tape, simrt.Config{Strategy: strat, PCTDepth: 2, PCTLen: 50}, func(s *simrt.Sim) {
		var mu ssync.Mutex
		var wg ssync.WaitGroup
		ch := make(chan int)
		for i := 0; i < 3; i++ {
			wg.Add(1)
			i := i
			s.Go("w", func() {
				defer wg.Done()
				mu.Lock()
				total += i
				mu.Unlock()
				simrt.ChanSend(ch, i)
			})
		}
		sum := 0
		for i := 0; i < 3; i++ {
			sum += simrt.ChanRecv(ch)
		}
		wg.Wait()
		s.Logf("sum %d", sum)
	})
	return s.LogHash ^ s.TraceHash, total, s.Failure()
}

func TestDeterminism(t *testing.T) {
	for _, st := range []simrt.Strategy{simrt.StratRandom, simrt.StratSticky, simrt.StratPCT} {
		seen := map[uint64]bool{}
		for seed := uint64(1); seed < 200; seed++ {
			h1, tot, f := runOnce(seed, st)
			if f != nil {
				t.Fatal(f)
			}
			if tot != 3 {
				t.Fatal("total", tot)
			}
			h2, _, _ := runOnce(seed, st)
			if h1 != h2 {
				t.Fatalf("seed %d not deterministic", seed)
			}
			seen[h1] = true
		}
		t.Logf("strategy %d: %d distinct traces", st, len(seen))
	}
}

func TestDeadlock(t *testing.T) {
	tape := simrt.NewTape(1)
	s := simrt.Run(tape, simrt.Config{}, func(s *simrt.Sim) {
		var mu ssync.Mutex
		mu.Lock()
		s.Go("w", func() { mu.Lock() })
		mu.Lock()
	})
	if s.Failure() == nil || s.Failure().Kind != simrt.FailDeadlock {
		t.Fatal("expected deadlock", s.Failure())
	}
}

func TestPanicInTask(t *testing.T) {
	tape := simrt.NewTape(1)
	s := simrt.Run(tape, simrt.Config{}, func(s *simrt.Sim) {
		var wg ssync.WaitGroup
		wg.Add(1)
		s.Go("w", func() { panic("boom") })
		wg.Wait()
	})
	if s.Failure() == nil || s.Failure().Kind != simrt.FailPanic {
		t.Fatal("expected panic", s.Failure())
	}
}
