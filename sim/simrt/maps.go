package simrt

import (
	"cmp"
	"fmt"
	"reflect"
	"sort"
)

// Entry is one key/value pair of a map snapshot.
type Entry[K cmp.Ordered, V any] struct {
	K K
	V V
}

// SortedEntries replaces `range m` in instrumented code: a snapshot of the map in key order,
// so that iteration order is not a hidden source of nondeterminism.
func SortedEntries[M ~map[K]V, K cmp.Ordered, V any](m M) []Entry[K, V] {
	MapR(m)
	out := make([]Entry[K, V], 0, len(m))
	for k, v := range m {
		out = append(out, Entry[K, V]{k, v})
	}
	sort.Slice(out, func(i, j int) bool { return out[i].K < out[j].K })
	// Go starts a map iteration at a random position: the tape chooses where this one starts (0 keeps
	// key order) and whether it runs backwards, so order-dependent behaviour is explored and replays
	if s := S(); s != nil && !s.ending && len(out) > 1 {
		k := s.Tape.Choose(len(out), "map.range.start")
		if k > 0 {
			out = append(append(make([]Entry[K, V], 0, len(out)), out[k:]...), out[:k]...)
		}
		if len(out) > 2 && s.Tape.Choose(2, "map.range.reverse") == 1 {
			for i, j := 0, len(out)-1; i < j; i, j = i+1, j-1 {
				out[i], out[j] = out[j], out[i]
			}
		}
	}
	return out
}

// EntryAny is one key/value pair of a map whose key type has no order of its own.
type EntryAny[K comparable, V any] struct {
	K K
	V V
}

// SortedEntriesAny is SortedEntries for maps whose key type is not ordered (a type parameter, a
// struct): the snapshot is ordered by the keys' printed form. Keys whose printed form is an address
// (pointers, channels, functions) have no run-independent order; the run is then marked as something
// the simulator cannot represent.
func SortedEntriesAny[M ~map[K]V, K comparable, V any](m M) []EntryAny[K, V] {
	MapR(m)
	type keyed struct {
		s string
		e EntryAny[K, V]
	}
	tmp := make([]keyed, 0, len(m))
	for k, v := range m {
		switch reflect.ValueOf(k).Kind() {
		case reflect.Pointer, reflect.Chan, reflect.Func, reflect.UnsafePointer:
			if s := S(); s != nil {
				s.Unsupported("range over a map keyed by addresses: no deterministic iteration order exists")
			}
		}
		tmp = append(tmp, keyed{fmt.Sprintf("%T:%v", k, k), EntryAny[K, V]{k, v}})
	}
	sort.Slice(tmp, func(i, j int) bool { return tmp[i].s < tmp[j].s })
	out := make([]EntryAny[K, V], len(tmp))
	for i, x := range tmp {
		out[i] = x.e
	}
	if s := S(); s != nil && !s.ending && len(out) > 1 {
		k := s.Tape.Choose(len(out), "map.range.start")
		if k > 0 {
			out = append(append(make([]EntryAny[K, V], 0, len(out)), out[k:]...), out[:k]...)
		}
	}
	return out
}
