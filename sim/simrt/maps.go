package simrt

import (
	"cmp"
	"sort"
)

// Entry is one key/value pair of a map snapshot.
type Entry[K cmp.Ordered, V any] struct {
	K K
	V V
}

// SortedEntries replaces `range m` in instrumented code: a snapshot of the map in key order,
// so that iteration order is not a hidden source of nondeterminism.
func SortedEntries[M ~map[K]V, K cmp.Ordered, V any](m M) []Entry[K, V] {
	MapR(m)
	out := make([]Entry[K, V], 0, len(m))
	for k, v := range m {
		out = append(out, Entry[K, V]{k, v})
	}
	sort.Slice(out, func(i, j int) bool { return out[i].K < out[j].K })
	// Go starts a map iteration at a random position: the tape chooses where this one starts (0 keeps
	// key order) and whether it runs backwards, so order-dependent behaviour is explored and replays
	if s := S(); s != nil && !s.ending && len(out) > 1 {
		k := s.Tape.Choose(len(out), "map.range.start")
		if k > 0 {
			out = append(append(make([]Entry[K, V], 0, len(out)), out[k:]...), out[:k]...)
		}
		if len(out) > 2 && s.Tape.Choose(2, "map.range.reverse") == 1 {
			for i, j := 0, len(out)-1; i < j; i, j = i+1, j-1 {
				out[i], out[j] = out[j], out[i]
			}
		}
	}
	return out
}
