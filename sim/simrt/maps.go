package simrt

import (
	"cmp"
	"sort"
)

// Entry is one key/value pair of a map snapshot.
type Entry[K cmp.Ordered, V any] struct {
	K K
	V V
}

// SortedEntries replaces `range m` in instrumented code: a snapshot of the map in key order,
// so that iteration order is not a hidden source of nondeterminism.
func SortedEntries[M ~map[K]V, K cmp.Ordered, V any](m M) []Entry[K, V] {
	MapR(m)
	out := make([]Entry[K, V], 0, len(m))
	for k, v := range m {
		out = append(out, Entry[K, V]{k, v})
	}
	sort.Slice(out, func(i, j int) bool { return out[i].K < out[j].K })
	return out
}
