package simrt

import (
	"fmt"
	"runtime"
	"runtime/debug"
	"sort"
	"strings"
	"sync/atomic"
	"time"
)

// Strategy selects how the next task is chosen at a scheduling point.
type Strategy int

const (
	StratRandom Strategy = iota // uniform over runnable tasks (0 = stay)
	StratSticky                 // stay with probability (den-num)/den
	StratPCT                    // priorities with d change points
)

// Kind classifies scheduling points.
type Kind int

const (
	KSync  Kind = iota // lock / atomic / channel / cond operation inside instrumented code
	KSeam              // call or return of an external seam (metastore, KMS, AEAD, secret factory, ...)
	KSpawn             // task creation / exit
)

// Config parametrises a simulation.
type Config struct {
	Strategy  Strategy
	StickyNum int // probability of leaving the current task = StickyNum/StickyDen
	StickyDen int
	PCTDepth  int  // number of priority change points
	PCTLen    int  // assumed length in steps over which change points are spread
	Coarse    bool // only KSeam/KSpawn points may preempt
	MaxSteps  int
	Epoch     time.Time
	KeepLog   bool
	Paranoid  bool
}

// FailureKind says why a run was stopped by the runtime itself.
type FailureKind string

const (
	FailDeadlock FailureKind = "deadlock"
	FailBudget   FailureKind = "budget"
	FailPanic    FailureKind = "panic"
	FailHarness  FailureKind = "harness"
)

// Failure is a runtime-level failure of a run.
type Failure struct {
	Kind  FailureKind
	Msg   string
	Task  string
	Stack string
}

func (f *Failure) Error() string { return string(f.Kind) + ": " + f.Msg }

// Task is one simulated goroutine.
type Task struct {
	ID      int
	Name    string
	Node    int
	wake    chan struct{}
	done    bool
	aborted bool
	killed  bool
	started bool
	pred    func() bool
	site    string
	prio    int
	goid    uint64
	// Local is free for the harness (e.g. current operation id).
	Local any
	vc    VC // happens-before clock, see hb.go
}

// Done reports whether the task has finished.
func (t *Task) Done() bool { return t.done }

// BlockedAt returns the site at which the task is parked waiting for a condition ("" when it is
// runnable, running or finished).
func (t *Task) BlockedAt() string {
	if t.done || t.pred == nil {
		return ""
	}
	return t.site
}

type timer struct {
	at   time.Duration
	seq  uint64
	fire func()
	vc   VC // clock of the task that armed it
}

// Sim is one simulation run.
type Sim struct {
	Tape *Tape
	Cfg  Config

	tasks      []*Task
	cur        *Task
	now        time.Duration
	timers     []*timer
	pollers    []func() bool
	seq        uint64
	finalizers []*finalizerRec
	// TrackReachability: recorded finalizers do not keep their objects alive (see SetFinalizer)
	TrackReachability bool
	// happens-before tracking (hb.go)
	hbOff       bool
	hbObj       map[any]VC
	hbMaps      map[uintptr]*mapState
	hbVars      map[uintptr]bool // ids in hbMaps that are shared variables, not maps
	timerVC     VC
	MapAccesses int
	MapRaces    int

	Steps     int
	Switches  int
	TraceHash uint64
	pairs     map[string]struct{}

	ending   bool
	failure  *Failure
	fin      chan struct{}
	abortAck chan struct{}
	finOnce  bool

	chans map[uintptr]*emuChan

	LogLines []string
	LogHash  uint64
	Probes   map[string]int

	pctChange []int
	rand      *Rand
	randHook  RandHook
	RandReads int
	// RandLog, when non-nil, records every chunk handed out by the simulated crypto/rand.
	RandLog map[string]int
	// RandStream, when RandLog is on, is the concatenation of everything handed out.
	RandStream []byte
	skew       map[int]time.Duration

	// Ext is free for the harness.
	Ext any
}

var current atomic.Pointer[Sim]

// S returns the active simulation or nil. All shims fall through to the real primitives
// when it returns nil.
func S() *Sim {
	s := current.Load()
	if s == nil {
		return nil
	}
	if s.Cfg.Paranoid {
		if g := goid(); s.cur == nil || g != s.cur.goid {
			panic(fmt.Sprintf("simrt: foreign goroutine %d entered a shim while task %v runs", g, s.cur))
		}
	}
	return s
}

type abortSignal struct{}

// Run executes body as task 0 of a fresh simulation and returns the finished Sim.
// Exactly one simulation may run per process at a time.
func Run(tape *Tape, cfg Config, body func(s *Sim)) *Sim {
	if cfg.MaxSteps == 0 {
		cfg.MaxSteps = 200000
	}
	if cfg.StickyDen == 0 {
		cfg.StickyDen = 10
		if cfg.StickyNum == 0 {
			cfg.StickyNum = 2
		}
	}
	if cfg.Epoch.IsZero() {
		cfg.Epoch = time.Date(2030, 1, 1, 0, 0, 30, 0, time.UTC)
	}
	s := &Sim{
		Tape:      tape,
		Cfg:       cfg,
		fin:       make(chan struct{}),
		abortAck:  make(chan struct{}),
		chans:     map[uintptr]*emuChan{},
		Probes:    map[string]int{},
		pairs:     map[string]struct{}{},
		skew:      map[int]time.Duration{},
		LogHash:   14695981039346656037,
		TraceHash: 14695981039346656037,
	}
	if !current.CompareAndSwap(nil, s) {
		panic("simrt: a simulation is already running in this process")
	}
	defer current.Store(nil)
	if cfg.Strategy == StratPCT {
		n := cfg.PCTLen
		if n <= 0 {
			n = 300
		}
		for i := 0; i < cfg.PCTDepth; i++ {
			s.pctChange = append(s.pctChange, tape.Choose(n, "pct.change"))
		}
	}
	t0 := s.newTask("main", 0, func() { body(s) })
	s.cur = t0
	t0.wake <- struct{}{}
	<-s.fin
	return s
}

// Failure returns the runtime failure of the run, if any.
func (s *Sim) Failure() *Failure { return s.failure }

// Cur returns the running task.
func (s *Sim) Cur() *Task { return s.cur }

// Tasks returns all tasks created so far.
func (s *Sim) Tasks() []*Task { return s.tasks }

// Pairs is the number of distinct (site -> site) context-switch pairs seen.
func (s *Sim) Pairs() int { return len(s.pairs) }

// PairList returns the distinct switch pairs.
func (s *Sim) PairList() []string {
	out := make([]string, 0, len(s.pairs))
	for k := range s.pairs {
		out = append(out, k)
	}
	sort.Strings(out)
	return out
}

func (s *Sim) newTask(name string, node int, fn func()) *Task {
	t := &Task{ID: len(s.tasks), Name: name, Node: node, wake: make(chan struct{}, 1)}
	if !s.hbOff {
		// go statement: everything the parent (or the task that armed the timer) did so far is visible
		switch {
		case s.timerVC != nil:
			t.vc = append(VC(nil), s.timerVC...)
		case s.cur != nil:
			t.vc = append(VC(nil), s.cur.vc...)
			s.cur.tick()
		}
		t.tick()
	}
	if s.Cfg.Strategy == StratPCT {
		t.prio = s.Cfg.PCTDepth + 1 + s.Tape.Choose(1000, "pct.prio")
	}
	s.tasks = append(s.tasks, t)
	go func() {
		<-t.wake
		t.goid = goidSlow()
		t.started = true
		// a memory fault in a task (a read of pages the code under test has made inaccessible) is a
		// crash of the process under test: it is reported as such instead of killing the worker
		debug.SetPanicOnFault(true)
		defer s.taskEnd(t)
		if t.aborted {
			return
		}
		fn()
	}()
	return t
}

func (s *Sim) taskEnd(t *Task) {
	r := recover()
	if r != nil {
		if _, ok := r.(abortSignal); !ok && s.failure == nil {
			s.failure = &Failure{Kind: FailPanic, Msg: fmt.Sprint(r), Task: t.Name, Stack: trimStack(string(debug.Stack()))}
		}
	}
	t.done = true
	if s.ending {
		if t.aborted {
			s.abortAck <- struct{}{}
		}
		return
	}
	if t.ID == 0 || s.failure != nil {
		s.teardown(t)
		return
	}
	s.Logf("task %d exit", t.ID)
	s.schedule(KSpawn, "task.exit")
}

// teardown aborts every other task (each unwinds through its deferred calls with all shims
// turned into no-ops) and finishes the run. self is the calling task.
func (s *Sim) teardown(self *Task) {
	if s.ending {
		return
	}
	s.ending = true
	for _, t := range s.tasks {
		if t == self || (t.done && !t.killed) {
			continue
		}
		t.killed = false
		t.aborted = true
		s.cur = t
		t.wake <- struct{}{}
		<-s.abortAck
	}
	s.cur = self
	if !s.finOnce {
		s.finOnce = true
		close(s.fin)
	}
}

// Fatal stops the run with a runtime failure. It does not return when called from a task
// that is still alive.
func (s *Sim) Fatal(kind FailureKind, msg string) {
	if s.ending {
		return
	}
	self := s.cur
	if s.failure == nil {
		s.failure = &Failure{Kind: kind, Msg: msg, Task: self.Name, Stack: trimStack(string(debug.Stack()))}
	}
	s.teardown(self)
	if !self.done {
		self.done = true
		runtime.Goexit()
	}
}

// AddPoller registers f to run inside the scheduler at every scheduling step until it returns false
// (used to carry state changes of uninstrumented code, such as a cancelled parent context, into the
// simulation at a deterministic point).
func (s *Sim) AddPoller(f func() bool) { s.pollers = append(s.pollers, f) }

func (s *Sim) runPollers() {
	if len(s.pollers) == 0 {
		return
	}
	keep := s.pollers[:0]
	for _, f := range s.pollers {
		if f() {
			keep = append(keep, f)
		}
	}
	s.pollers = keep
}

// Unsupported records that the code under test did something the simulator cannot represent
// soundly; the run continues but its outcome is harness trouble (exit 2), never a verdict.
func (s *Sim) Unsupported(what string) {
	if s.failure == nil {
		s.failure = &Failure{Kind: FailHarness, Msg: "unsupported by the simulator: " + what}
	}
}

func trimStack(st string) string {
	lines := strings.Split(st, "\n")
	if len(lines) > 60 {
		lines = lines[:60]
	}
	return strings.Join(lines, "\n")
}

// Ending reports whether the run is being torn down (shims are no-ops then).
func (s *Sim) Ending() bool { return s.ending }

func (s *Sim) runnable() []*Task {
	var r []*Task
	for _, t := range s.tasks {
		if t.done {
			continue
		}
		if t.pred == nil || t.pred() {
			r = append(r, t)
		}
	}
	return r
}

// schedule is the heart: called by the current task at a scheduling point; the current task may
// be runnable, blocked (pred set) or done.
func (s *Sim) schedule(kind Kind, site string) {
	if s.ending {
		return
	}
	cur := s.cur
	cur.site = site
	for {
		s.runPollers()
		r := s.runnable()
		if len(r) == 0 {
			if s.fireNextTimer() {
				continue
			}
			s.Fatal(FailDeadlock, s.describeBlocked())
			return
		}
		next := s.pick(r, kind)
		next.pred = nil
		if next == cur {
			return
		}
		s.switchTo(next, site)
		return
	}
}

func (s *Sim) describeBlocked() string {
	var b strings.Builder
	for _, t := range s.tasks {
		if t.done {
			continue
		}
		fmt.Fprintf(&b, "[task %d %s blocked at %s] ", t.ID, t.Name, t.site)
	}
	return b.String()
}

func (s *Sim) switchTo(next *Task, site string) {
	prev := s.cur
	s.cur = next
	s.Switches++
	s.TraceHash = fnvAdd(s.TraceHash, fmt.Sprintf("%d>%d@%s", prev.ID, next.ID, site))
	if len(s.pairs) < 4096 {
		s.pairs[site+"->"+next.site] = struct{}{}
	}
	next.wake <- struct{}{}
	if prev.done {
		return
	}
	<-prev.wake
	if prev.aborted {
		runtime.Goexit()
	}
}

func (s *Sim) pick(r []*Task, kind Kind) *Task {
	cur := s.cur
	curRunnable := false
	for _, t := range r {
		if t == cur {
			curRunnable = true
		}
	}
	if len(r) == 1 {
		return r[0]
	}
	if curRunnable && s.Cfg.Coarse && kind == KSync {
		return cur
	}
	switch s.Cfg.Strategy {
	case StratPCT:
		best := r[0]
		for _, t := range r[1:] {
			if t.prio > best.prio || (t.prio == best.prio && t.ID < best.ID) {
				best = t
			}
		}
		return best
	case StratSticky:
		if curRunnable {
			if !s.Tape.Chance(s.Cfg.StickyNum, s.Cfg.StickyDen, "sched.leave") {
				return cur
			}
			others := make([]*Task, 0, len(r)-1)
			for _, t := range r {
				if t != cur {
					others = append(others, t)
				}
			}
			return others[s.Tape.Choose(len(others), "sched.other")]
		}
		return r[s.Tape.Choose(len(r), "sched.pick")]
	default:
		if curRunnable {
			// order: current first so that 0 means "stay"
			i := s.Tape.Choose(len(r), "sched.pick")
			if i == 0 {
				return cur
			}
			k := 0
			for _, t := range r {
				if t == cur {
					continue
				}
				k++
				if k == i {
					return t
				}
			}
		}
		return r[s.Tape.Choose(len(r), "sched.pick")]
	}
}

func (s *Sim) stepTick() {
	s.Steps++
	if s.Cfg.Strategy == StratPCT {
		for i, c := range s.pctChange {
			if c == s.Steps {
				s.cur.prio = s.Cfg.PCTDepth - i
			}
		}
	}
	if s.Steps > s.Cfg.MaxSteps {
		s.Fatal(FailBudget, fmt.Sprintf("step budget %d exhausted; %s", s.Cfg.MaxSteps, s.describeBlocked()))
	}
}

// Point is a scheduling point at which the current task stays runnable.
func (s *Sim) Point(kind Kind, site string) {
	if s.ending {
		s.checkAbort()
		return
	}
	s.stepTick()
	s.schedule(kind, site)
}

// Block parks the current task until pred holds. pred is evaluated by the scheduler while
// no task runs, so it may read simulation state freely; it must not have side effects.
func (s *Sim) Block(site string, pred func() bool) {
	if s.ending {
		s.checkAbort()
		return
	}
	if pred() {
		return
	}
	s.stepTick()
	s.cur.pred = pred
	s.schedule(KSync, site)
}

func (s *Sim) checkAbort() {
	// a task that keeps calling shims while being unwound simply continues; nothing to do
}

// Go spawns a new task on the same node as the caller. Spawning is a scheduling point.
func (s *Sim) Go(name string, fn func()) *Task {
	if s.ending {
		return &Task{done: true}
	}
	t := s.newTask(name, s.cur.Node, fn)
	s.Logf("spawn %d %s by %d", t.ID, name, s.cur.ID)
	s.Point(KSpawn, "spawn")
	return t
}

// GoNode is Go with an explicit node id (a simulated process).
func (s *Sim) GoNode(name string, node int, fn func()) *Task {
	if s.ending {
		return &Task{done: true}
	}
	t := s.newTask(name, node, fn)
	s.Logf("spawn %d %s by %d", t.ID, name, s.cur.ID)
	s.Point(KSpawn, "spawn")
	return t
}

// Join blocks until t is done.
func (s *Sim) Join(t *Task) {
	s.Block("join", func() bool { return t.done })
	if !s.hbOff && s.cur != nil {
		s.cur.vc = joinVC(s.cur.vc, t.vc)
	}
}

// Kill removes a parked task from the simulation (crash of a simulated process). Its goroutine
// stays parked and is unwound at teardown, when every shim is a no-op.
func (s *Sim) Kill(t *Task) {
	if t.done || t == s.cur {
		return
	}
	t.done = true
	t.killed = true
	t.pred = nil
	s.Logf("kill %d", t.ID)
}

// Idle runs other tasks until none of them is runnable (all blocked or done). Timers are not fired.
func (s *Sim) Idle() {
	if s.ending {
		return
	}
	self := s.cur
	s.Block("idle", func() bool {
		for _, t := range s.tasks {
			if t == self || t.done {
				continue
			}
			if t.pred == nil || t.pred() {
				return false
			}
		}
		return true
	})
}

// OthersBlocked describes tasks other than the caller that are not done (after Idle they are all blocked).
func (s *Sim) OthersBlocked() []string {
	var out []string
	for _, t := range s.tasks {
		if t == s.cur || t.done {
			continue
		}
		out = append(out, fmt.Sprintf("task %d %s at %s", t.ID, t.Name, t.site))
	}
	return out
}

// ---- clock ----

// Now is the simulated wall clock of the calling task's node.
func (s *Sim) Now() time.Time {
	d := s.now
	if s.cur != nil {
		d += s.skew[s.cur.Node]
	}
	return s.Cfg.Epoch.Add(d)
}

// Global is the un-skewed simulated time.
func (s *Sim) Global() time.Time { return s.Cfg.Epoch.Add(s.now) }

// Elapsed is the simulated time since the epoch.
func (s *Sim) Elapsed() time.Duration { return s.now }

// SetSkew sets a constant clock offset for a node.
func (s *Sim) SetSkew(node int, d time.Duration) { s.skew[node] = d }

// Advance moves the clock forward and fires due timers.
func (s *Sim) Advance(d time.Duration) {
	if d < 0 {
		return
	}
	target := s.now + d
	for len(s.timers) > 0 {
		i := s.minTimer()
		if s.timers[i].at > target {
			break
		}
		t := s.timers[i]
		s.timers = append(s.timers[:i], s.timers[i+1:]...)
		if t.at > s.now {
			s.now = t.at
		}
		s.timerVC = t.vc
		t.fire()
		s.timerVC = nil
	}
	s.now = target
}

func (s *Sim) minTimer() int {
	b := 0
	for i, t := range s.timers {
		if t.at < s.timers[b].at || (t.at == s.timers[b].at && t.seq < s.timers[b].seq) {
			b = i
		}
	}
	return b
}

func (s *Sim) fireNextTimer() bool {
	if len(s.timers) == 0 {
		return false
	}
	i := s.minTimer()
	t := s.timers[i]
	s.timers = append(s.timers[:i], s.timers[i+1:]...)
	if t.at > s.now {
		s.now = t.at
	}
	s.timerVC = t.vc
	t.fire()
	s.timerVC = nil
	return true
}

// AddTimer registers fire to run (inside the scheduler, not as a task) at now+d.
func (s *Sim) AddTimer(d time.Duration, fire func()) *TimerH {
	s.seq++
	if d < 0 {
		d = 0
	}
	t := &timer{at: s.now + d, seq: s.seq, fire: fire}
	if !s.hbOff && s.cur != nil {
		t.vc = append(VC{}, s.cur.vc...)
		s.cur.tick()
	}
	s.timers = append(s.timers, t)
	return &TimerH{s: s, t: t}
}

// TimerH is a handle on a pending simulated timer.
type TimerH struct {
	s *Sim
	t *timer
}

// Cancel removes the timer; it reports whether the timer was still pending.
func (h *TimerH) Cancel() bool {
	if h == nil {
		return false
	}
	for i, t := range h.s.timers {
		if t == h.t {
			h.s.timers = append(h.s.timers[:i], h.s.timers[i+1:]...)
			return true
		}
	}
	return false
}

// Sleep blocks the calling task for d of simulated time.
func (s *Sim) Sleep(d time.Duration) {
	if s.ending {
		return
	}
	if d <= 0 {
		s.Point(KSync, "sleep0")
		return
	}
	woke := false
	s.AddTimer(d, func() { woke = true })
	s.Block("sleep", func() bool { return woke })
}

// ---- logging / probes ----

// Logf appends to the event log (hashed always, kept when Cfg.KeepLog).
func (s *Sim) Logf(format string, a ...any) {
	line := fmt.Sprintf(format, a...)
	s.LogHash = fnvAdd(s.LogHash, line)
	if s.Cfg.KeepLog {
		s.LogLines = append(s.LogLines, fmt.Sprintf("[%d t%d %v] %s", s.Steps, s.cur.ID, s.now, line))
	}
}

// Probe counts a named rare-branch hit.
func (s *Sim) Probe(name string) { s.Probes[name]++ }

func fnvAdd(h uint64, str string) uint64 {
	for i := 0; i < len(str); i++ {
		h ^= uint64(str[i])
		h *= 1099511628211
	}
	h ^= 0xff
	h *= 1099511628211
	return h
}

// ---- goroutine ids (paranoid mode and bookkeeping only) ----

func goidSlow() uint64 {
	var buf [64]byte
	n := runtime.Stack(buf[:], false)
	// "goroutine 123 ["
	var id uint64
	for i := len("goroutine "); i < n; i++ {
		c := buf[i]
		if c < '0' || c > '9' {
			break
		}
		id = id*10 + uint64(c-'0')
	}
	return id
}

func goid() uint64 { return goidSlow() }

// GoFromTimer spawns a task from a timer callback (no scheduling point: the scheduler is running).
func (s *Sim) GoFromTimer(name string, node int, fn func()) {
	if s.ending {
		return
	}
	s.newTask(name, node, fn)
}

// ---- randomness ----

// RandFault, when set, is consulted before every simulated crypto/rand read.
type RandHook func(n int) error

// SetRand installs the per-run DRBG and an optional fault hook.
func (s *Sim) SetRand(r *Rand, hook RandHook) { s.rand = r; s.randHook = hook }

// ShortRead is returned by a RandHook to make the read deliver only its first N bytes before failing.
type ShortRead struct {
	N   int
	Err error
}

func (e ShortRead) Error() string { return e.Err.Error() }

// RandRead is crypto/rand.Read under simulation.
func (s *Sim) RandRead(b []byte) (int, error) {
	s.RandReads++
	if s.randHook != nil {
		if err := s.randHook(len(b)); err != nil {
			// a short read: some bytes were delivered before the source failed
			if sr, ok := err.(ShortRead); ok && sr.N > 0 && sr.N < len(b) {
				if s.rand == nil {
					s.rand = NewRand(1)
				}
				s.rand.Fill(b[:sr.N])
				return sr.N, sr.Err
			}
			return 0, err
		}
	}
	if s.rand == nil {
		s.rand = NewRand(1)
	}
	s.rand.Fill(b)
	if s.RandLog != nil {
		s.RandLog[string(b)]++
		s.RandStream = append(s.RandStream, b...)
	}
	return len(b), nil
}

// RearmPCT draws fresh priority change points relative to the current step, spread over the next
// n steps: engines call it when a concurrent phase starts late in a long run.
func (s *Sim) RearmPCT(n int) {
	if s.Cfg.Strategy != StratPCT || n <= 0 {
		return
	}
	for i := range s.pctChange {
		s.pctChange[i] = s.Steps + 1 + s.Tape.Choose(n, "pct.rearm")
	}
	for _, t := range s.tasks {
		if !t.done {
			t.prio = s.Cfg.PCTDepth + 1 + s.Tape.Choose(1000, "pct.reprio")
		}
	}
}
