package simrt_test

import (
	"context"
	"errors"
	"strings"
	"testing"
	"time"

	"verif/sim/simrt"
	"verif/sim/simrt/ssync"
	"verif/sim/simrt/stime"
)

func raceOf(seed uint64, body func(s *simrt.Sim)) string {
	s := simrt.Run(simrt.NewTape(seed), simrt.Config{Strategy: simrt.StratRandom}, body)
	if f := s.Failure(); f != nil {
		return string(f.Kind) + ": " + f.Msg
	}
	return ""
}

// A map written under a lock on one side and read after the lock was dropped on the other is
// reported whatever the schedule; the properly locked version never is.
func TestMapRaceDetected(t *testing.T) {
	for seed := uint64(1); seed <= 20; seed++ {
		got := raceOf(seed, func(s *simrt.Sim) {
			var mu ssync.Mutex
			m := map[string]int{}
			a := s.Go("a", func() {
				mu.Lock()
				simrt.MapW(m)["x"] = 1
				mu.Unlock()
			})
			b := s.Go("b", func() {
				mu.Lock()
				mu.Unlock()
				_ = simrt.MapR(m)["x"] // outside the critical section
			})
			s.Join(a)
			s.Join(b)
		})
		// when b's critical section comes after a's the read is ordered: only some schedules are racy,
		// but then the report must name the map
		if got != "" && !strings.Contains(got, "concurrent map") {
			t.Fatalf("seed %d: unexpected failure %s", seed, got)
		}
	}
	racy := 0
	for seed := uint64(1); seed <= 20; seed++ {
		if raceOf(seed, func(s *simrt.Sim) {
			m := map[string]int{}
			a := s.Go("a", func() { simrt.MapW(m)["x"] = 1 })
			b := s.Go("b", func() { simrt.MapW(m)["y"] = 2 })
			s.Join(a)
			s.Join(b)
		}) != "" {
			racy++
		}
	}
	if racy != 20 {
		t.Fatalf("two unsynchronised writers were reported in %d of 20 schedules, expected all", racy)
	}
}

func TestNoFalseMapRace(t *testing.T) {
	for seed := uint64(1); seed <= 50; seed++ {
		got := raceOf(seed, func(s *simrt.Sim) {
			var mu ssync.RWMutex
			var wg ssync.WaitGroup
			var once ssync.Once
			m := map[int]int{}
			ch := make(chan int, 1)
			done := make(chan struct{})
			for i := 0; i < 3; i++ {
				i := i
				wg.Add(1)
				s.Go("w", func() {
					defer wg.Done()
					once.Do(func() { simrt.MapW(m)[-1] = 0 })
					mu.Lock()
					simrt.MapW(m)[i] = i
					mu.Unlock()
					mu.RLock()
					_ = simrt.MapR(m)[i]
					mu.RUnlock()
				})
			}
			s.Go("producer", func() {
				wg.Wait()
				simrt.MapW(m)[100] = 1 // after every worker (WaitGroup edge)
				simrt.ChanSend(ch, 1)
				simrt.ChanClose(done)
			})
			<-func() chan int { c := make(chan int, 1); c <- 0; return c }()
			simrt.ChanRecv(ch)
			_ = simrt.MapR(m)[100] // after the send
			simrt.ChanRecv(done)
			stime.AfterFunc(time.Second, func() { simrt.MapW(m)[7] = 7 }) // after the arming task's past
			s.Advance(2 * time.Second)
			s.Idle()
		})
		if got != "" {
			t.Fatalf("seed %d: %s", seed, got)
		}
	}
}

func TestSelectAndTimers(t *testing.T) {
	for seed := uint64(1); seed <= 30; seed++ {
		var order []string
		got := raceOf(seed, func(s *simrt.Sim) {
			res := make(chan int)
			s.Go("slow", func() {
				stime.Sleep(3 * time.Second)
				sel := simrt.Select(true, simrt.SelSend(res, 42)) // nobody listens any more
				order = append(order, map[int]string{-1: "slow:dropped", 0: "slow:sent"}[sel.I])
			})
			timeout := stime.After(time.Second)
			sel := simrt.Select(false, simrt.SelRecv(res), simrt.SelRecv(timeout))
			order = append(order, map[int]string{0: "main:result", 1: "main:timeout"}[sel.I])
			ctx, cancel := stime.WithTimeout(context.Background(), 10*time.Second)
			defer cancel()
			child, cancel2 := context.WithCancel(ctx)
			defer cancel2()
			sel = simrt.Select(false, simrt.SelRecv(child.Done()), simrt.SelRecv(stime.After(time.Minute)))
			if sel.I != 0 || !errors.Is(child.Err(), context.DeadlineExceeded) {
				order = append(order, "deadline not propagated")
			} else {
				order = append(order, "deadline")
			}
			if s.Elapsed() != 11*time.Second {
				order = append(order, "clock="+s.Elapsed().String())
			}
			tm := stime.NewTimer(time.Hour)
			if !tm.Stop() {
				order = append(order, "stop=false")
			}
			s.Idle()
		})
		if got != "" {
			t.Fatalf("seed %d: %s", seed, got)
		}
		if strings.Join(order, ",") != "main:timeout,slow:dropped,deadline" && strings.Join(order, ",") != "main:timeout,deadline,slow:dropped" {
			t.Fatalf("seed %d: %v", seed, order)
		}
	}
}

// Two goroutines appending to one slice variable with nothing between them are a data race whatever
// the schedule; with a mutex around the appends, or a WaitGroup between them, they are not.
func TestSharedVariableRace(t *testing.T) {
	for seed := uint64(1); seed <= 20; seed++ {
		got := raceOf(seed, func(s *simrt.Sim) {
			var out []int
			a := s.Go("a", func() { simrt.VarW(&out); out = append(out, 1) })
			b := s.Go("b", func() { simrt.VarW(&out); out = append(out, 2) })
			s.Join(a)
			s.Join(b)
		})
		if !strings.Contains(got, "data race:") {
			t.Fatalf("seed %d: unsynchronised appends not reported: %q", seed, got)
		}
		got = raceOf(seed, func(s *simrt.Sim) {
			var mu ssync.Mutex
			var out []int
			add := func(v int) func() {
				return func() { mu.Lock(); simrt.VarW(&out); out = append(out, v); mu.Unlock() }
			}
			a, b := s.Go("a", add(1)), s.Go("b", add(2))
			s.Join(a)
			s.Join(b)
			simrt.VarW(&out)
			out = nil
		})
		if got != "" {
			t.Fatalf("seed %d: locked appends reported: %s", seed, got)
		}
	}
}
