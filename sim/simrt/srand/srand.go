// Package srand mirrors crypto/rand.Read / Reader with a per-run deterministic generator that
// can be made to fail.
package srand

import (
	crand "crypto/rand"
	"io"

	"verif/sim/simrt"
)

type reader struct{}

func (reader) Read(b []byte) (int, error) { return Read(b) }

// Reader mirrors crypto/rand.Reader.
var Reader io.Reader = reader{}

// Read mirrors crypto/rand.Read.
func Read(b []byte) (int, error) {
	s := simrt.S()
	if s == nil || s.Ending() {
		return crand.Read(b)
	}
	return s.RandRead(b)
}
