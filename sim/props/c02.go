package props

import (
	"bytes"
	"fmt"
	"time"

	"verif/sim/refimpl"
	"verif/sim/simrt"
	"verif/sim/world"
)

func init() {
	register(&Property{
		ID:    "C02",
		Level: "fault_enumeration",
		Rule: "one case = (key-state scenario in {cold, warm cache, warm store/cold cache, expired warm, IK revoked, SK revoked, expired cold, rotated by peer}) x (index of the seam call inside the target encrypt: metastore Load/LoadLatest/Store, KMS, AEAD, secret factory) x (fault kind in {error before apply, error after apply = lost acknowledgement, false 'already exists', lost creation race}); every single-fault case is enumerated, then pairs of faults and random policies are sampled; " +
			"non-trivial = the fault actually fired inside the target operation; distinct = distinct (scenario, call class and index, fault kind[, second fault]) tuples",
		Run:         runC02,
		Sweep:       func(tier string) [][]uint32 { return sweepPrefixes(18) },
		QuickSec:    15,
		ThoroughSec: 420,
		Assumptions: []string{
			"a crash immediately after a successful encrypt is modelled by evaluating the oracle on a metastore snapshot taken at the instant Encrypt returns and decrypting in a brand-new process",
			"simulated metastore/KMS; 'error after apply' means the write happened but the caller saw an error",
		},
	})
}

func runC02(t *simrt.Tape, o Opts) Outcome {
	cfg := schedCfg(t, o, false)
	var w *world.World
	var st Stats
	// sweep coordinates come first on the tape (they are the enumerated prefix)
	swept := t.Choose(2, "mode.sweep") == 1
	sc := t.Choose(scCount, "scenario")
	call := t.Choose(18, "fault.call")
	kind := sweepKinds[t.Choose(len(sweepKinds), "fault.kind")]
	s := simrt.Run(t, cfg, func(s *simrt.Sim) {
		w = world.New(s, "C02")
		st.Oracle = map[string]int{}
		pol := world.PolicyCfg{CacheSK: true, CacheIK: true, SKCap: 1000, IKCap: 1000, Expire: expiresC02, Revoke: revokesC02, Precision: precisionC02}
		call2, kind2 := -1, ""
		if !swept || t.Choose(3, "pair") == 1 {
			// sampled part: random policy, possibly a second fault
			pol = world.GenPolicy(t, world.GenOpts{AllowTinyLFU: allowTinyLFU, NoSessionCache: false})
			if t.Choose(2, "second") == 1 {
				call2 = t.Choose(18, "fault2.call")
				kind2 = sweepKinds[t.Choose(len(sweepKinds), "fault2.kind")]
			}
			if t.Choose(2, "slow-calls") == 1 {
				// slow metastore/KMS calls: long enough for the creation-stamp window, the revoke-check
				// interval or a key lifetime to pass while a call is in flight
				w.Faults.Kinds["latency"] = true
				prec := pol.Precision
				if prec <= 0 {
					prec = time.Second
				}
				w.LatencyMenu = []time.Duration{time.Second, prec, prec + time.Second, pol.Revoke + time.Second}
			}
		}
		part := "a"
		se := setupScenario(w, t, sc, pol, part)
		if se == nil {
			return
		}
		w.Drain()
		// the target operation
		w.Faults.SweepOp = len(w.Ops)
		w.Faults.SweepCall, w.Faults.SweepKind = call, kind
		w.Faults.Sweep2Call, w.Faults.Sweep2Kind = call2, kind2
		payload := w.Payload(2)
		rec, op := w.Encrypt(se, payload)
		snap := w.Snapshot() // the instant Encrypt returned
		w.Faults.Off = true
		w.Drain()
		count(st.Oracle, "target-encrypt")
		if rec != nil {
			count(st.Oracle, "success-chain-persisted")
			checkChain(w, snap, rec, "target")
		} else if op.Panic == "" && op.Faulted == 0 {
			w.Violate("encrypt-failed", "encrypt-failed/no-fault", "scenario %s: encrypt failed with no fault fired: %v", scNames[sc], op.Err)
		}
		// once the faults stop, the very next operation succeeds (same session, then a new process)
		if len(w.Viols) == 0 {
			count(st.Oracle, "recovery-next-op")
			rec2, op2 := w.Encrypt(se, w.Payload(2))
			if rec2 == nil && op2.Panic == "" {
				w.Violate("no-recovery", "no-recovery/same-session/"+scNames[sc], "scenario %s, fault %v: after the faults stopped the next encrypt on the same session failed: %v", scNames[sc], op.FaultDesc, op2.Err)
			} else if rec2 != nil {
				checkChain(w, w.Snapshot(), rec2, "recovery")
			}
		}
		if len(w.Viols) == 0 {
			p2 := w.NewProc(pol)
			if se2, err := w.Open(p2, part); err == nil {
				rec3, op3 := w.Encrypt(se2, w.Payload(2))
				if rec3 == nil && op3.Panic == "" {
					w.Violate("no-recovery", "no-recovery/new-process/"+scNames[sc], "scenario %s, fault %v: a new process cannot encrypt after the faults stopped: %v", scNames[sc], op.FaultDesc, op3.Err)
				} else if rec3 != nil {
					checkChain(w, w.Snapshot(), rec3, "recovery-new-process")
				}
			}
		}
		st.Nontrivial = op.Faulted > 0
		st.Class = fmt.Sprintf("%s|%v", scNames[sc], op.FaultDesc)
		st.Sample = map[string]any{"scenario": scNames[sc], "faults_fired": op.FaultDesc, "target_seam_calls": op.Calls, "result": resStr(nil, op), "policy": pol.String()}
	})
	return finish(s, w, st, true)
}

const (
	expiresC02   = 90 * 24 * time.Hour
	revokesC02   = 60 * time.Minute
	precisionC02 = time.Minute
)

// checkChain: the record's IK row and that row's SK row are in the snapshot, the reference
// implementation decrypts the record from the snapshot alone, and so does a brand-new real process.
func checkChain(w *world.World, snap refimpl.Store, rec *world.Rec, what string) {
	ik, err := snap.Get(rec.IKID, rec.IKCreated)
	if err != nil || ik == nil {
		w.Violate("ik-not-persisted", "ik-not-persisted/"+what, "encrypt returned a record under IK %s@%d which is not in the metastore at that instant (faults: %v)", rec.IKID, rec.IKCreated, rec.Op.FaultDesc)
		return
	}
	if ik.ParentKeyMeta == nil {
		w.Violate("ik-without-parent", "ik-without-parent/"+what, "IK row %s@%d has no ParentKeyMeta", rec.IKID, rec.IKCreated)
		return
	}
	sk, err := snap.Get(ik.ParentKeyMeta.KeyID, ik.ParentKeyMeta.Created)
	if err != nil || sk == nil {
		w.Violate("sk-not-persisted", "sk-not-persisted/"+what, "IK %s@%d names SK %s@%d which is not in the metastore when encrypt returned (faults: %v)", rec.IKID, rec.IKCreated, ik.ParentKeyMeta.KeyID, ik.ParentKeyMeta.Created, rec.Op.FaultDesc)
		return
	}
	got, err := refimpl.Decrypt(snap, w.KMS, rec.JSON)
	if err != nil {
		w.Violate("fresh-reference-cannot-decrypt", "fresh-reference-cannot-decrypt/"+what, "a fresh reference process holding only the metastore snapshot and the KMS cannot decrypt the returned record: %v (faults: %v)", err, rec.Op.FaultDesc)
		return
	}
	if !bytes.Equal(got, rec.Payload) {
		w.Violate("wrong-plaintext", "wrong-plaintext/"+what, "reference decrypt of the returned record yields other bytes")
		return
	}
	// a brand-new real process over the snapshot
	saved := w.Store.Rows
	w.Store.Rows = snap.Clone()
	off := w.Faults.Off
	w.Faults.Off = true
	p := w.NewProc(world.PolicyCfg{CacheSK: true, CacheIK: true, SKCap: 1000, IKCap: 1000, Expire: expiresC02, Revoke: revokesC02, Precision: precisionC02})
	if se, err := w.Open(p, rec.Part); err == nil {
		out, op := w.Decrypt(se, &rec.DRR)
		if op.Panic == "" && (op.Err != nil || !bytes.Equal(out, rec.Payload)) {
			w.Violate("fresh-process-cannot-decrypt", "fresh-process-cannot-decrypt/"+what, "a fresh SDK process over the metastore snapshot cannot decrypt the returned record: %v", op.Err)
		}
	}
	w.CloseProc(p)
	w.Store.Rows = saved
	w.Faults.Off = off
}
