// Package props holds one simulation engine per property: generator, faults, oracles.
package props

import (
	"fmt"
	"sort"
	"strings"
	"time"

	"verif/sim/simrt"
	"verif/sim/world"
)

// Opts are the per-run options given by the driver.
type Opts struct {
	Tier     string
	KeepLog  bool
	Paranoid bool
}

// Stats describes what one run covered.
type Stats struct {
	Ops        int            `json:"ops"`
	Steps      int            `json:"steps"`
	Switches   int            `json:"switches"`
	MapAcc     int            `json:"map_accesses"`
	SimTime    time.Duration  `json:"sim_time_ns"`
	Faults     map[string]int `json:"faults,omitempty"`
	Probes     map[string]int `json:"probes,omitempty"`
	Oracle     map[string]int `json:"oracle,omitempty"`
	Class      string         `json:"class"` // key for counting distinct cases
	Nontrivial bool           `json:"nontrivial"`
	TraceHash  uint64         `json:"trace_hash"`
	LogHash    uint64         `json:"log_hash"`
	Pairs      []string       `json:"-"`
	Sample     any            `json:"sample,omitempty"`
}

// Outcome is the result of one run.
type Outcome struct {
	Viols []world.Violation
	Infra *simrt.Failure
	Stats Stats
	Log   []string
}

// Property describes one check.
type Property struct {
	ID    string
	Level string // exploration | fault_enumeration
	Rule  string // how cases are generated and what makes one nontrivial/distinct
	Run   func(t *simrt.Tape, o Opts) Outcome
	// Sweep returns the enumerated case prefixes for a tier (nil for purely sampled checks).
	Sweep func(tier string) [][]uint32
	// Budget in seconds of worker time per tier.
	QuickSec, ThoroughSec int
	// Recycle > 0: a worker process is replaced after that many runs (runs that leak process resources by design).
	Recycle     int
	Assumptions []string
	Components  map[string]string
}

// Registry holds all properties.
var Registry = map[string]*Property{}

func register(p *Property) { Registry[p.ID] = p }

// IDs returns the registered property ids in order.
func IDs() []string {
	var out []string
	for k := range Registry {
		out = append(out, k)
	}
	sort.Strings(out)
	return out
}

// schedCfg draws a scheduling strategy.
func schedCfg(t *simrt.Tape, o Opts, concurrent bool) simrt.Config {
	cfg := simrt.Config{KeepLog: o.KeepLog, Paranoid: o.Paranoid, MaxSteps: 400000}
	if !concurrent {
		cfg.Strategy = simrt.StratSticky
		cfg.StickyNum, cfg.StickyDen = 3, 10
		return cfg
	}
	switch t.Choose(6, "sched.strategy") {
	case 0, 1, 2:
		cfg.Strategy = simrt.StratPCT
		cfg.PCTDepth = 1 + t.Choose(3, "sched.pct.d")
		cfg.PCTLen = []int{60, 150, 400, 1000}[t.Choose(4, "sched.pct.len")]
	case 3:
		cfg.Strategy = simrt.StratRandom
	default:
		cfg.Strategy = simrt.StratSticky
		cfg.StickyNum, cfg.StickyDen = []int{1, 5}[t.Choose(2, "sched.sticky")], 10
	}
	return cfg
}

// finish converts the state of a finished simulation into an Outcome.
func finish(s *simrt.Sim, w *world.World, st Stats, deadlockIsViolation bool) Outcome {
	out := Outcome{Stats: st}
	out.Stats.Steps = s.Steps
	out.Stats.Switches = s.Switches
	out.Stats.MapAcc = s.MapAccesses
	out.Stats.SimTime = s.Elapsed()
	out.Stats.TraceHash = s.TraceHash
	out.Stats.LogHash = s.LogHash
	out.Stats.Probes = s.Probes
	out.Stats.Pairs = s.PairList()
	out.Log = s.LogLines
	if w != nil {
		out.Viols = w.Viols
		out.Stats.Ops = len(w.Ops)
		out.Stats.Faults = w.Faults.Fired
	}
	if f := s.Failure(); f != nil {
		prop := "?"
		if w != nil {
			prop = w.Prop
		}
		switch {
		case w == nil:
			// engines without a world translate runtime failures themselves
			out.Infra = f
		case f.Kind == simrt.FailPanic && strings.HasPrefix(f.Msg, "fatal error: concurrent map"):
			out.Viols = append(out.Viols, world.Violation{Prop: prop, Rule: "concurrent-map-access", Signature: prop + "/concurrent-map-access", Msg: f.Msg})
		case f.Kind == simrt.FailPanic && strings.HasPrefix(f.Msg, "data race:"):
			out.Viols = append(out.Viols, world.Violation{Prop: prop, Rule: "data-race", Signature: prop + "/data-race", Msg: f.Msg})
		case f.Kind == simrt.FailPanic:
			v := world.Violation{Prop: prop, Rule: "panic-in-goroutine", Signature: prop + "/goroutine-panic", Msg: fmt.Sprintf("a goroutine of the SDK panicked (process crash): %s\n%s", f.Msg, f.Stack)}
			out.Viols = append(out.Viols, v)
		case f.Kind == simrt.FailDeadlock && deadlockIsViolation:
			v := world.Violation{Prop: prop, Rule: "deadlock", Signature: prop + "/deadlock", Msg: "all tasks blocked: " + f.Msg}
			out.Viols = append(out.Viols, v)
		default:
			out.Infra = f
		}
	}
	return out
}

func count(m map[string]int, k string) { m[k]++ }

// Stubs says, per property, which parts of the simulated system are stubs/fakes (everything else
// is the repository's real code, instrumented through the build overlay).
var Stubs = map[string][]string{}

func init() {
	worldStubs := []string{"metastore (SimStore: insert-only JSON table with RPC yields and faults)", "KMS (SimKMS: AES-GCM under a fixed master key)", "secure memory (pure-Go tracking factory)", "operator and foreign-implementation node (harness)", "wall clock (virtual)", "crypto/rand (seeded DRBG)"}
	for _, id := range []string{"C01", "C02", "C03", "C04", "C05", "C06", "C07", "C08", "C09", "C14", "C16", "C18", "C20"} {
		Stubs[id] = worldStubs
	}
	Stubs["C10"] = []string{"metastore (SimStore)", "KMS (SimKMS)", "fake regional AWS KMS nodes", "wall clock (virtual)"}
	Stubs["C11"] = []string{"none below the memcall interface: real mmap/mlock/mprotect via an interposed pass-through memcall"}
	Stubs["C12"] = []string{"memcall interposer (pass-through + injected failures)", "crypto/rand (seeded DRBG that can fail)"}
	Stubs["C13"] = []string{"database/sql driver + SQL engine (fake, documented schema)", "DynamoDB service (semantic fake with lagging replica)"}
	Stubs["C15"] = []string{"cache.Clock (virtual clock through the public WithClock seam)"}
	Stubs["C17"] = []string{"regional AWS KMS services (fake nodes behind the plugins' client interfaces)"}
	Stubs["C18"] = append(append([]string{}, worldStubs...), "database/sql driver (fake)", "DynamoDB service (fake)", "gRPC transport (in-memory stream)")
	Stubs["C19"] = append(append([]string{}, worldStubs...), "gRPC/HTTP-2 transport (in-memory stream that passes every response through the real protobuf codec)", "in one sampled run of eight nothing but the transport: the service is built by its own constructor (repository's in-memory metastore, static KMS, memguard secrets)")
}

// Thorough reports whether the thorough tier was requested.
func (o Opts) Thorough() bool { return o.Tier == "thorough" }

// scale picks a bound by tier.
func scale(o Opts, quick, thorough int) int {
	if o.Thorough() {
		return thorough
	}
	return quick
}

// panicKind names the signature tail of a run that ended in a goroutine panic: the happens-before
// layer's two reports have their own names.
func panicKind(msg string) string {
	switch {
	case strings.HasPrefix(msg, "fatal error: concurrent map"):
		return "concurrent-map-access"
	case strings.HasPrefix(msg, "data race:"):
		return "data-race"
	}
	return "goroutine-panic"
}
