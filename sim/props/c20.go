package props

import (
	"encoding/base64"
	"fmt"
	"time"

	"verif/sim/simrt"
	"verif/sim/world"
)

func init() {
	register(&Property{
		ID:    "C20",
		Level: "exploration",
		Rule: "one case = one simulated history of repeated encrypts/decrypts over 1-4 partitions and several sessions of 1-2 processes with clock advances placed around the revoke-check interval (I-1s, I, I+1s, 2I+1s, ...), under every cache arrangement (per-session, shared IK cache, session cache, none) with caches that fit the working set; metastore and KMS calls are counted per operation at the seams; " +
			"non-trivial = at least one operation was a repeat inside the interval (zero-call clause evaluated) and one was the first use after the interval (re-read clause evaluated); distinct = distinct (cache kind, policies, which clauses were evaluated) tuples",
		Run:         runC20,
		QuickSec:    15,
		ThoroughSec: 420,
		Assumptions: []string{
			"zero RPC latency: the response time of a read equals the invocation time of its operation, which is also the SDK's freshness stamp",
			"working set fits the cache: only unbounded ('simple') caches or capacities >= 99 with at most 4 partitions are generated for the zero-call clause; session-cached configurations are checked for the KMS and no-retention clauses only",
			"the re-read clause is evaluated only for keys that are valid (row and parent not revoked, not expired): invalid keys are legitimately reloaded on every use or never",
		},
	})
}

func scopeOf(se *world.Sess) string {
	if se.P.Cfg.SharedIKCache() {
		return fmt.Sprintf("p%d", se.P.ID)
	}
	return fmt.Sprintf("s%d", se.N)
}

func runC20(t *simrt.Tape, o Opts) Outcome {
	cfg := schedCfg(t, o, true)
	var w *world.World
	var st Stats
	s := simrt.Run(t, cfg, func(s *simrt.Sim) {
		w = world.New(s, "C20")
		st.Oracle = map[string]int{}
		h := &hist{w: w, t: t, parts: world.Partitions[:1+t.Choose(4, "nparts")], maxProc: 2, samePolicyTimes: true}
		h.gen = world.GenOpts{AllowTinyLFU: allowTinyLFU}
		h.weights = [opKinds]int{opEncrypt: 10, opDecrypt: 8, opOpen: 2, opCloseSess: 1, opAdvance: 5, opRevoke: 1, opForeignRotate: 1, opNewProc: 1}
		h.payloadClasses = []int{2}
		h.newProc()
		pol := h.base
		okCache := func(pol string, capn int) bool { return pol == "" || pol == "simple" || capn >= 99 }
		fitsSK := func(c world.PolicyCfg) bool { return okCache(c.SKPolicy, c.SKCap) }
		fitsIK := func(c world.PolicyCfg) bool { return okCache(c.IKPolicy, c.IKCap) }
		type seen struct {
			at      time.Duration
			revoked bool
			created int64
		}
		fresh := map[string]seen{} // scope|id@created and scope|latest:id
		encrypted := map[string]bool{}
		clauses := map[string]bool{}
		lastKMS := map[string]time.Duration{}
		// used records that, in this operation, the scope's cache read (or created) key (id, created)
		// from the metastore and used it: from then on the cache holds it with this freshness stamp.
		used := func(se *world.Sess, op *world.OpRec, id string, created int64, isEncrypt bool) {
			sc := scopeOf(se)
			touched, revoked := false, false
			for _, c := range w.Calls {
				if c.Op != op || c.ID != id {
					continue
				}
				switch c.Class {
				case "ms.latest", "ms.load":
					if c.Result == "ok" && c.RetCreated == created {
						touched = true
						revoked = revoked || c.Revoked
					}
				case "ms.store":
					if c.Result == "ok" && c.Created == created {
						touched = true
					}
				}
			}
			if !touched {
				return
			}
			fresh[fmt.Sprintf("%s|%s@%d", sc, id, created)] = seen{op.T0, revoked, created}
			if isEncrypt {
				fresh[sc+"|latest:"+id] = seen{op.T0, revoked, created}
			} else if l, ok := fresh[sc+"|latest:"+id]; !ok || l.created <= created {
				// a key loaded by id becomes the cache's latest key of that id when it is the newest it has seen
				fresh[sc+"|latest:"+id] = seen{op.T0, revoked, created}
			}
		}
		skValid := func(blobID string, at time.Time) bool {
			// the system key rows are few: find the one whose unwrap request id matches
			for c := range w.Store.Rows[w.SKID()] {
				row, _ := w.Store.Rows.Get(w.SKID(), c)
				if row == nil {
					continue
				}
				kb := row.KeyBytes()
				n := 8
				if len(kb) < n {
					n = len(kb)
				}
				if base64Prefix(kb[:n]) == blobID {
					if !row.Revoked && !at.After(time.Unix(c, 0).Add(pol.Expire)) {
						return true
					}
					// an expired or revoked system key is replaced by the first operation that needs a
					// current one, after which nobody asks for the old one on the write path; only while
					// no later creation stamp exists (the replacement would collide with it) can it be
					// legitimately re-read by every operation
					return !row.Revoked && !at.Before(laterStampFrom(c, pol.Precision))
				}
			}
			return false
		}
		kmsClause := func(op *world.OpRec, p *world.Proc) {
			if !p.Cfg.CacheSK || !fitsSK(p.Cfg) {
				return
			}
			for _, c := range w.Calls {
				if c.Op != op || c.Class != "kms.dec" || c.Result != "ok" {
					continue
				}
				key := fmt.Sprintf("%d|%s", p.ID, c.ID)
				count(st.Oracle, "kms-unwrap-spacing")
				if prev, ok := lastKMS[key]; ok && c.T0-prev <= p.Cfg.Revoke && skValid(c.ID, unixAt(w, c.T0)) {
					clauses["kms"] = true
					w.Violate("sk-unwrapped-twice", "sk-unwrapped-twice/"+cacheKind(p.Cfg), "process %d asked the KMS to unwrap the same system key twice within one revoke-check interval (%v apart, interval %v)", p.ID, c.T0-prev, p.Cfg.Revoke)
				}
				lastKMS[key] = c.T0
			}
		}
		validChain := func(id string, created int64, at time.Time) bool {
			row, _ := w.Store.Rows.Get(id, created)
			if row == nil || row.Revoked || at.After(time.Unix(created, 0).Add(pol.Expire)) || row.ParentKeyMeta == nil {
				return false
			}
			sk, _ := w.Store.Rows.Get(row.ParentKeyMeta.KeyID, row.ParentKeyMeta.Created)
			return sk != nil && !sk.Revoked && !at.After(time.Unix(sk.Created, 0).Add(pol.Expire))
		}
		readsOf := func(op *world.OpRec, id string) int {
			n := 0
			for _, c := range w.Calls {
				if c.Op == op && c.ID == id && (c.Class == "ms.latest" || c.Class == "ms.load") {
					n++
				}
			}
			return n
		}
		// skClause: the factory-wide system key cache follows the same rule as the intermediate key
		// caches. A decrypt that had to read an intermediate key row needs that row's parent system key;
		// when the process last read that system key's record more than one interval ago (and was not
		// shown it as revoked - a key known to be revoked is not looked at again), the operation reads
		// the system key's record again before using it.
		type skSeen struct {
			at      time.Duration
			revoked bool
		}
		skFresh := map[string]skSeen{}
		skClause := func(op *world.OpRec, p *world.Proc, rec *world.Rec) {
			var parents []int64
			skReads := 0
			for _, c := range w.Calls {
				if c.Op != op {
					continue
				}
				if c.ID == rec.IKID && c.Class == "ms.load" && c.Result == "ok" && c.Parent != 0 {
					parents = append(parents, c.Parent)
				}
				if c.ID == w.SKID() && (c.Class == "ms.load" || c.Class == "ms.latest") {
					skReads++
				}
			}
			if p.Cfg.CacheSK && fitsSK(p.Cfg) && op.Err == nil && op.Panic == "" {
				for _, x := range parents {
					f, ok := skFresh[fmt.Sprintf("%d|%d", p.ID, x)]
					if !ok || f.revoked || op.T0 <= f.at+pol.Revoke {
						continue
					}
					count(st.Oracle, "reread-after-interval-system-key")
					clauses["reread-sk"] = true
					if skReads == 0 {
						w.Violate("stale-key-not-reread", "stale-key-not-reread/system-key/"+cacheKind(p.Cfg), "decrypt read an intermediate key row and used its parent system key %v after the process last read that system key's record (interval %v) without reading it again", op.T0-f.at, pol.Revoke)
					}
				}
			}
		}
		skTouched := func(op *world.OpRec, p *world.Proc) {
			for _, c := range w.Calls {
				if c.Op != op || c.ID != w.SKID() || c.Result != "ok" {
					continue
				}
				switch c.Class {
				case "ms.load", "ms.latest":
					skFresh[fmt.Sprintf("%d|%d", p.ID, c.RetCreated)] = skSeen{op.T0, c.Revoked}
				case "ms.store":
					skFresh[fmt.Sprintf("%d|%d", p.ID, c.Created)] = skSeen{op.T0, false}
				}
			}
		}
		// with intermediate-key caching disabled by policy no intermediate key is retained between calls,
		// whatever else is cached (sessions, system keys): every operation reads the key's record
		ikNotRetained := func(op *world.OpRec, p *world.Proc, ikID string) {
			if p.Cfg.CacheIK || op.Err != nil || op.Panic != "" {
				return
			}
			count(st.Oracle, "ik-cache-off-reloads")
			clauses["ik-cache-off"] = true
			if readsOf(op, ikID) == 0 {
				w.Violate("cache-off-no-reload", "cache-off-no-reload/intermediate-key/"+cacheKind(p.Cfg), "intermediate-key caching is disabled by policy but %s op %d did not read the intermediate key's record (session cache: %v)", op.Kind, op.Idx, p.Cfg.SessionCache)
			}
		}
		noRetention := func(op *world.OpRec, p *world.Proc) {
			if p.Cfg.CacheSK || p.Cfg.CacheIK || p.Cfg.SessionCache {
				return
			}
			count(st.Oracle, "cache-off-reloads")
			clauses["cache-off"] = true
			if op.Err == nil && op.MSCalls == 0 {
				w.Violate("cache-off-no-reload", "cache-off-no-reload", "key caching is disabled but %s op %d made no metastore call", op.Kind, op.Idx)
			}
			if live := w.Ledger.LiveOf(p.ID); len(live) > 0 {
				sig := "cache-off-retained"
				idx := w.KeyPlain()
				all := true
				for _, s := range live {
					if viaFor(w, p.ID, idx[s.FP], "") != "after-sk-mismatch-fallback" {
						all = false
					}
				}
				if all {
					sig = "cache-off-retained/after-sk-mismatch-fallback"
				}
				w.Violate("cache-off-retained", sig, "key caching is disabled but %d secret(s) are retained after %s op %d", len(live), op.Kind, op.Idx)
			}
		}
		h.hooks.afterEncrypt = func(se *world.Sess, rec *world.Rec, op *world.OpRec) {
			defer skTouched(op, se.P)
			if rec == nil {
				return
			}
			defer used(se, op, rec.IKID, rec.IKCreated, true)
			p := se.P
			kmsClause(op, p)
			noRetention(op, p)
			ikNotRetained(op, p, rec.IKID)
			if !p.Cfg.CacheIK || p.Cfg.SessionCache || !fitsIK(p.Cfg) {
				return
			}
			sc := scopeOf(se)
			id := w.IKID(se.Part)
			f, known := fresh[sc+"|latest:"+id]
			if !known || !encrypted[sc+"|"+se.Part] {
				encrypted[sc+"|"+se.Part] = true
				return
			}
			// which key does the cache consider latest? the one it last read / created
			t0 := op.T0
			at := unixAt(w, t0)
			if f.revoked {
				return // a key known to be revoked is reloaded on every use: not constrained
			}
			if t0 <= f.at+pol.Revoke {
				// repeat inside the interval: no external call, provided the cached key has not expired meanwhile
				if validChain(id, rec.IKCreated, at) && rec.IKCreated == f.created {
					count(st.Oracle, "zero-call-encrypt")
					clauses["zero-encrypt"] = true
					if op.MSCalls > 0 || op.KMSCalls > 0 {
						w.Violate("calls-inside-interval", "calls-inside-interval/encrypt/"+cacheKind(p.Cfg), "repeated encrypt on a session %v after its key was last read (interval %v) made %d metastore and %d KMS calls", t0-f.at, pol.Revoke, op.MSCalls, op.KMSCalls)
					}
				}
				return
			}
			// first use after the interval: the key's record is read again before use
			count(st.Oracle, "reread-after-interval-encrypt")
			clauses["reread-encrypt"] = true
			n := readsOf(op, id)
			if n == 0 {
				w.Violate("stale-key-not-reread", "stale-key-not-reread/encrypt/"+cacheKind(p.Cfg), "encrypt %v after the key was last read (interval %v) did not read the key's record again", t0-f.at, pol.Revoke)
			} else if n > 1 && validChain(id, rec.IKCreated, at) && rec.IKCreated == f.created {
				if c, ok := w.Store.Rows.Latest(id); ok && c == rec.IKCreated {
					w.Violate("reread-more-than-once", "reread-more-than-once/encrypt", "encrypt after the interval read the unchanged, valid key record %d times", n)
				}
			}
		}
		h.hooks.afterDecrypt = func(se *world.Sess, rec *world.Rec, got []byte, op *world.OpRec) {
			defer skTouched(op, se.P)
			if op.Err != nil || op.Panic != "" {
				return
			}
			defer used(se, op, rec.IKID, rec.IKCreated, false)
			p := se.P
			skClause(op, p, rec)
			kmsClause(op, p)
			noRetention(op, p)
			ikNotRetained(op, p, rec.IKID)
			if !p.Cfg.CacheIK || p.Cfg.SessionCache || !fitsIK(p.Cfg) {
				return
			}
			sc := scopeOf(se)
			f, known := fresh[fmt.Sprintf("%s|%s@%d", sc, rec.IKID, rec.IKCreated)]
			if !known {
				return
			}
			t0 := op.T0
			if t0 <= f.at+pol.Revoke {
				if !f.revoked && !validChain(rec.IKID, rec.IKCreated, unixAt(w, t0)) && !validChain(rec.IKID, rec.IKCreated, unixAt(w, f.at)) {
					// the key (or its parent) was already invalid when it was loaded: its freshness is not constrained
				}
				count(st.Oracle, "zero-call-decrypt")
				clauses["zero-decrypt"] = true
				if op.MSCalls > 0 || op.KMSCalls > 0 {
					w.Violate("calls-inside-interval", "calls-inside-interval/decrypt/"+cacheKind(p.Cfg), "repeated decrypt %v after the key was last read (interval %v) made %d metastore and %d KMS calls", t0-f.at, pol.Revoke, op.MSCalls, op.KMSCalls)
				}
				return
			}
			if f.revoked || !validChain(rec.IKID, rec.IKCreated, unixAt(w, t0)) {
				return
			}
			count(st.Oracle, "reread-after-interval-decrypt")
			clauses["reread-decrypt"] = true
			n := readsOf(op, rec.IKID)
			if n == 0 {
				w.Violate("stale-key-not-reread", "stale-key-not-reread/decrypt/"+cacheKind(p.Cfg), "decrypt %v after the key was last read (interval %v) did not read the key's record again", t0-f.at, pol.Revoke)
			} else if n > 1 {
				w.Violate("reread-more-than-once", "reread-more-than-once/decrypt", "decrypt after the interval read the unchanged, valid key record %d times", n)
			}
		}
		n := 10 + t.Choose(scale(o, 60, 180), "nops")
		for i := 0; i < n && len(w.Viols) == 0; i++ {
			h.step()
		}
		// concurrent cold start: a fresh factory is hit by several sessions of different partitions at
		// once; the system key they all need is unwrapped by the KMS once, whatever the interleaving
		if len(w.Viols) == 0 && len(w.Recs) > 0 && t.Choose(2, "cold-start") == 1 {
			cp := pol
			cp.CacheSK, cp.SKPolicy, cp.SKCap = true, "", 1000
			fresh := w.NewProc(cp)
			byPart := map[string]*world.Rec{}
			var order []string
			for _, r := range w.Recs {
				if byPart[r.Part] == nil {
					order = append(order, r.Part)
				}
				byPart[r.Part] = r // the newest record of each partition
			}
			// only records whose IK hangs under the one SK most of them share
			skOf := func(r *world.Rec) int64 {
				row, _ := w.Store.Rows.Get(r.IKID, r.IKCreated)
				if row == nil || row.ParentKeyMeta == nil {
					return 0
				}
				return row.ParentKeyMeta.Created
			}
			first := skOf(byPart[order[0]])
			before := len(w.Calls)
			var tasks []*simrt.Task
			n := 0
			for _, part := range order {
				rec := byPart[part]
				if skOf(rec) != first || first == 0 {
					continue
				}
				n++
				tasks = append(tasks, s.Go("cold-"+part, func() {
					se, err := w.Open(fresh, part)
					if err != nil {
						return
					}
					w.Decrypt(se, &rec.DRR)
				}))
			}
			for _, tk := range tasks {
				s.Join(tk)
			}
			unwraps := 0
			for _, c := range w.Calls[before:] {
				if c.Proc == fresh.ID && c.Class == "kms.dec" && c.Result == "ok" {
					unwraps++
				}
			}
			if n >= 2 {
				count(st.Oracle, "concurrent-cold-start-one-unwrap")
				clauses["cold-start"] = true
				if unwraps > 1 {
					w.Violate("sk-unwrapped-twice", "sk-unwrapped-twice/concurrent-cold-start", "%d sessions of different partitions hit a fresh factory concurrently and the KMS unwrapped the one system key they share %d times", n, unwraps)
				}
			}
		}
		zero := clauses["zero-encrypt"] || clauses["zero-decrypt"]
		re := clauses["reread-encrypt"] || clauses["reread-decrypt"]
		st.Nontrivial = (zero && re) || clauses["cache-off"]
		st.Class = fmt.Sprintf("%s|%v", pol.Class(), keysOf(clauses))
		st.Sample = map[string]any{"history": h.trace, "policy": pol.String(), "clauses": keysOf(clauses)}
	})
	return finish(s, w, st, true)
}

func base64Prefix(b []byte) string { return base64.StdEncoding.EncodeToString(b) }
