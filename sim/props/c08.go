package props

import (
	"bytes"
	"fmt"
	"time"

	"verif/sim/simrt"
	"verif/sim/world"
)

func init() {
	register(&Property{
		ID:    "C08",
		Level: "exploration",
		Rule: "one case = one schedule-explored concurrent run: 2-6 client tasks encrypt, decrypt, open and close sessions over 2-8 partitions against ONE real SessionFactory with bounded key caches (capacity 1-3 synchronous eviction; occasionally 100 with >100 keys for asynchronous eviction), every eviction policy, shared or per-session IK cache, optional session cache, while the main task advances the virtual clock past the revoke-check interval / key lifetime (refresh and rotation paths); the scheduler (PCT priorities d<=3, random walk, sticky) decides every interleaving at instrumented sync points; " +
			"non-trivial = at least one eviction or stale refresh happened while another task was inside an operation; distinct = distinct context-switch traces (hash of (task, site) switch sequence) - classes are (policy class, strategy)",
		Run:         runC08,
		QuickSec:    30,
		ThoroughSec: 900,
		Assumptions: []string{
			"code between two instrumented synchronisation points runs atomically (sound for data-race-free code; data races proper are the race detector's job)",
			"fault-free metastore and KMS; each client only closes sessions it opened itself and only after its own operations on them returned; the factory is closed after all clients finished",
		},
	})
}

type concClient struct {
	id   int
	recs []*world.Rec
}

func runC08(t *simrt.Tape, o Opts) Outcome {
	cfg := schedCfg(t, o, true)
	var w *world.World
	var st Stats
	s := simrt.Run(t, cfg, func(s *simrt.Sim) {
		w = world.New(s, "C08")
		st.Oracle = map[string]int{}
		async := t.Choose(scale(o, 12, 5), "async") == 1
		gen := world.GenOpts{ForceCache: t.Choose(4, "any-cachemode") != 0, SmallCaps: true, NoSimple: t.Choose(4, "allowsimple") != 0, AllowTinyLFU: allowTinyLFU}
		pol := world.GenPolicy(t, gen)
		pol.Precision = []time.Duration{time.Second, time.Minute}[t.Choose(2, "prec")]
		nparts := 2 + t.Choose(7, "nparts")
		// one run in five starts from the state in which copies of one key keep replacing each other in a
		// cache: a coarse creation-stamp precision, a key revoked inside its own stamp window (its
		// replacement collides with it, so the revoked key stays the latest) and a cache that has learnt
		// of the revocation - from then on every encrypt on that partition reloads the key
		revokedInWindow := t.Choose(5, "revoked-inside-stamp-window") == 1
		if revokedInWindow {
			pol.Precision = 24 * time.Hour
			nparts = 1 + t.Choose(2, "nparts.few")
		}
		parts := make([]string, nparts)
		for i := range parts {
			parts[i] = fmt.Sprintf("p%d", i)
		}
		if async {
			pol.IKCap, pol.SharedIK, pol.IKPolicy = 100, true, []string{"lru", "lfu", "slru", "tinylfu"}[t.Choose(4, "asyncpol")]
			parts = make([]string, 103)
			for i := range parts {
				parts[i] = fmt.Sprintf("q%d", i)
			}
		}
		if async {
			revokedInWindow = false
		}
		faulty := !async && t.Choose(4, "faulty") == 1
		p := w.NewProc(pol)
		// seed: some records so that decrypts have something to work on (sequential, fault-free)
		var seedRecs []*world.Rec
		seedN := 1 + t.Choose(4, "seed")
		if async {
			seedN = len(parts)
		}
		for i := 0; i < seedN; i++ {
			part := parts[i%len(parts)]
			if se, err := w.Open(p, part); err == nil {
				if rec, _ := w.Encrypt(se, w.Payload(2)); rec != nil {
					seedRecs = append(seedRecs, rec)
				}
				w.CloseSess(se)
			}
		}
		if t.Choose(3, "rotate-before") == 1 {
			w.Advance(pol.Expire + time.Hour*25)
		}
		if revokedInWindow && len(seedRecs) > 0 {
			// (after a possible rotate-before the newest rows are the seed records' keys or none newer:
			// encrypt once more so that every partition has a current key, then revoke those)
			for i := 0; i < nparts; i++ {
				if se, err := w.Open(p, parts[i]); err == nil {
					if rec, _ := w.Encrypt(se, w.Payload(2)); rec != nil {
						seedRecs = append(seedRecs, rec)
						if t.Choose(2, "revoke.which") == 0 || i == 0 {
							w.Store.Revoke(rec.IKID, rec.IKCreated)
						}
					}
					w.CloseSess(se)
				}
			}
			w.Advance(pol.Revoke + time.Second)
		}
		w.Drain()
		if faulty {
			// failures inside SOME operations (those may fail); every operation in which nothing was
			// injected must still succeed - a failing neighbour must not destroy keys others use
			enableRandomFaults(w, t, []string{"ms.err", "kms.err", "aead.err", "alloc.err"}, pol.Expire, pol.Revoke)
			w.Faults.Kinds["aead.err"] = true
			w.Faults.Kinds["ms.readonly-faults"] = true
		}
		nclients := 2 + t.Choose(scale(o, 5, 7), "nclients")
		opsPer := 2 + t.Choose(scale(o, 5, 10), "opsper")
		if async {
			nclients, opsPer = 2+t.Choose(2, "nclients"), 2+t.Choose(3, "opsper")
		}
		var tasks []*simrt.Task
		for ci := 0; ci < nclients; ci++ {
			ci := ci
			// every choice a client makes is drawn before it starts, so the tape order does not depend on the schedule
			type step struct {
				part    string
				decrypt bool
				recPick int
				reuse   bool
			}
			plan := make([]step, opsPer)
			for i := range plan {
				plan[i] = step{part: parts[t.Choose(len(parts), "c.part")], decrypt: t.Choose(2, "c.dec") == 1, recPick: t.Choose(1<<16, "c.rec"), reuse: t.Choose(3, "c.reuse") == 1}
			}
			tasks = append(tasks, s.Go(fmt.Sprintf("client%d", ci), func() {
				var own []*world.Rec
				var se *world.Sess
				for _, stp := range plan {
					if s.Ending() {
						return
					}
					pool := append(append([]*world.Rec(nil), seedRecs...), own...)
					var rec *world.Rec
					part := stp.part
					if stp.decrypt && len(pool) > 0 {
						rec = pool[stp.recPick%len(pool)]
						part = rec.Part
					}
					if se == nil || se.Part != part || !stp.reuse {
						if se != nil {
							w.CloseSess(se)
						}
						var err error
						se, err = w.Open(p, part)
						if err != nil {
							w.Violate("open-failed", "open-failed", "GetSession(%q) failed under concurrency: %v", part, err)
							return
						}
					}
					if rec != nil {
						count(st.Oracle, "concurrent-decrypt")
						out, op := w.Decrypt(se, &rec.DRR)
						if op.Panic != "" {
							return
						}
						if op.Err != nil && op.Faulted > 0 {
							continue
						}
						if op.Err != nil {
							w.Violate("op-failed", "decrypt-failed/"+errClass(op.Err), "decrypt of r%d by client %d failed although neither its session nor the factory was being closed: %v", rec.N, ci, op.Err)
							return
						}
						if !bytes.Equal(out, rec.Payload) {
							w.Violate("wrong-plaintext", "wrong-plaintext", "concurrent decrypt of r%d returned other bytes", rec.N)
							return
						}
					} else {
						count(st.Oracle, "concurrent-encrypt")
						pl := w.Payload(2)
						r, op := w.Encrypt(se, pl)
						if op.Panic != "" {
							return
						}
						if r == nil && op.Faulted > 0 {
							continue
						}
						if r == nil {
							w.Violate("op-failed", "encrypt-failed/"+errClass(op.Err), "encrypt by client %d on partition %q failed although neither its session nor the factory was being closed: %v", ci, part, op.Err)
							return
						}
						own = append(own, r)
					}
				}
				if se != nil {
					w.CloseSess(se)
				}
			}))
		}
		// the main task moves the clock while the clients run
		nadv := t.Choose(4, "nadv")
		menu := []time.Duration{pol.Revoke + time.Second, pol.Expire + time.Second + pol.Precision, time.Second}
		for i := 0; i < nadv; i++ {
			d := menu[t.Choose(len(menu), "adv")]
			// (let the clients get somewhere first)
			for y := t.Choose(40, "main.wait"); y >= 0; y-- {
				s.Point(simrt.KSeam, "main.advance")
			}
			// an operator revokes the newest version of some key while the clients run (inside its
			// creation-stamp window the replacement collides with it, and copies of one key replace each
			// other in the caches)
			if t.Choose(3, "main.revoke") == 1 {
				var ids []string
				for id := range w.Store.Rows {
					ids = append(ids, id)
				}
				sortStrings(ids)
				if len(ids) > 0 {
					id := ids[t.Choose(len(ids), "main.revoke.id")]
					var newest int64
					for c := range w.Store.Rows[id] {
						if c > newest {
							newest = c
						}
					}
					w.Store.Revoke(id, newest)
				}
			}
			w.Advance(d)
		}
		for _, tk := range tasks {
			s.Join(tk)
		}
		w.Drain()
		w.Faults.Off = true
		if len(w.Ledger.UAC) > 0 && len(w.Viols) == 0 {
			e := w.Ledger.UAC[0]
			w.Violate("use-after-close", "use-after-close", "secret #%d was accessed (%s) after its Close had begun, by %v", e.Secret.N, e.What, opDesc(e.Op))
		}
		// every record produced concurrently still decrypts afterwards
		if len(w.Viols) == 0 {
			for _, rec := range w.Recs {
				se, err := w.Open(p, rec.Part)
				if err != nil {
					break
				}
				out, op := w.Decrypt(se, &rec.DRR)
				count(st.Oracle, "post-decrypt")
				if op.Panic == "" && (op.Err != nil || !bytes.Equal(out, rec.Payload)) {
					w.Violate("op-failed", "post-decrypt-failed", "record r%d produced during the concurrent phase does not decrypt afterwards: %v", rec.N, op.Err)
					break
				}
				w.CloseSess(se)
			}
		}
		w.CloseProc(p)
		w.Drain()
		st.Nontrivial = s.Switches > 0 && s.Probes["secret.close_waits_for_reader"]+countClosedDuringOps(w) > 0
		st.Class = fmt.Sprintf("%s|strat=%d/%d|clients=%d", pol.Class(), cfg.Strategy, cfg.PCTDepth, nclients)
		st.Sample = map[string]any{"policy": pol.String(), "clients": nclients, "ops_per_client": opsPer, "partitions": len(parts), "strategy": fmt.Sprintf("%d/d=%d", cfg.Strategy, cfg.PCTDepth), "switches": s.Switches, "steps": s.Steps}
	})
	return finish(s, w, st, true)
}

func errClass(err error) string {
	if err == nil {
		return "nil"
	}
	m := err.Error()
	switch {
	case bytes.Contains([]byte(m), []byte("already been destroyed")):
		return "secret-destroyed"
	case bytes.Contains([]byte(m), []byte("message authentication failed")):
		return "auth-failed"
	}
	if len(m) > 40 {
		m = m[:40]
	}
	return m
}

func opDesc(op *world.OpRec) string {
	if op == nil {
		return "a background task"
	}
	return fmt.Sprintf("%s op %d on partition %q", op.Kind, op.Idx, op.Part)
}

// countClosedDuringOps counts secrets of cached keys that were closed (evicted / refreshed) while
// the run had several client tasks: a proxy for "eviction happened during the concurrent phase".
func countClosedDuringOps(w *world.World) int {
	n := 0
	for _, s := range w.Ledger.Secrets {
		if s.Closed && !s.Random {
			n++
		}
	}
	return n
}
