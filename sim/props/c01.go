package props

import (
	"bytes"
	"fmt"
	applog "github.com/godaddy/asherah/go/appencryption/pkg/log"
	"time"

	"verif/sim/refimpl"
	"verif/sim/simrt"
	"verif/sim/world"
)

func init() {
	register(&Property{
		ID:    "C01",
		Level: "exploration",
		Rule: "one case = one simulated history (5-60 operations over 1-3 processes sharing a simulated metastore and KMS: encrypt, decrypt, session open/close, clock advance across expiry, out-of-band revocation, rotation by a foreign implementation, clean restart with a new policy, crash) under a swarm-chosen crypto policy; " +
			"non-trivial = at least one successful encrypt whose record was later decrypted after a rotation, revocation, restart, crash or clock advance; distinct = distinct (policy class, operation-kind set, fault kinds fired) triples",
		Run:         runC01,
		QuickSec:    25,
		ThoroughSec: 600,
		Assumptions: []string{
			"metastore and KMS are simulated servers written from the documentation (insert-only table keyed by (id,created); KMS = AES-GCM under a fixed master key)",
			"the AEAD is the repository's real AES-256-GCM behind a recording wrapper; protected memory is a pure-Go tracking factory",
			"each process's clock never runs backwards; processes may disagree by a constant offset (up to 100 days)",
		},
	})
}

func runC01(t *simrt.Tape, o Opts) Outcome {
	var out Outcome
	cfg := schedCfg(t, o, false)
	var w *world.World
	var st Stats
	s := simrt.Run(t, cfg, func(s *simrt.Sim) {
		w = world.New(s, "C01")
		st.Oracle = map[string]int{}
		if t.Choose(4, "memstore") == 1 {
			w.UseMemoryMetastore()
		}
		// clock skew between hosts: a third of the histories give every process its own constant offset
		// (nothing in this property depends on whose clock stamped a key)
		if t.Choose(3, "clock-skew") == 1 {
			w.ClockSkews = []time.Duration{0, time.Second, -time.Second, 90 * time.Second, -90 * time.Second, 2 * time.Hour, -2 * time.Hour, 25 * time.Hour, -25 * time.Hour, 100 * 24 * time.Hour, -100 * 24 * time.Hour}
		}
		// a metastore that suffixes key ids with its region (one history in four), possibly with records
		// and keys that were written before the suffix was switched on
		legacyWriter := false
		otherRegion := ""
		regions := []string{"us-west-2", "r1", "us-east-1", "eu-west-1"}
		if t.Choose(4, "region-suffix") == 1 {
			ri := t.Choose(len(regions), "region-suffix.which")
			w.Suffix = regions[ri]
			legacyWriter = t.Choose(2, "legacy-writer") == 1
			// a global table: records and keys written in another region are read in this one
			if t.Choose(2, "other-region-writer") == 1 {
				otherRegion = regions[(ri+1+t.Choose(len(regions)-1, "other-region.which"))%len(regions)]
			}
		}
		parts := world.Partitions
		if t.Choose(3, "realistic-ids") == 1 {
			// ids as deployments choose them: words, hyphens, digits, shared substrings
			w.Service, w.Product = "accounts", "us-payments"
			parts = []string{"tenant-1", "tenant-2", "user_42", "eu-cust-7", "tenant-10"}
		}
		h := &hist{w: w, t: t, parts: parts[:1+t.Choose(4, "nparts")], maxProc: 3}
		if t.Choose(5, "debug-log") == 1 {
			// the application has wired up the SDK's debug log: every debug line is rendered
			applog.SetLogger(renderLogger{})
			defer applog.SetLogger(nil)
		}
		h.gen = world.GenOpts{SmallCaps: t.Choose(2, "smallcaps") == 1, NoSimple: t.Choose(3, "nosimple") == 1, AllowTinyLFU: allowTinyLFU}
		h.weights = [opKinds]int{opEncrypt: 8, opDecrypt: 8, opOpen: 2, opCloseSess: 2, opAdvance: 3, opRevoke: 1, opForeignRotate: 1, opRestart: 1, opCrash: 1, opNewProc: 1}
		faulty := t.Choose(2, "faulty") == 1
		if o.Thorough() {
			h.payloadClasses = []int{2, 0, 1, 3, 4, 5, 6}
		}
		if legacyWriter {
			// the deployment before the switch: one process without suffix writes a record per partition
			w.NextProcUnsuffixed = true
			old := h.newProc()
			w.NextProcUnsuffixed = false
			for _, part := range h.parts {
				if se, err := w.Open(old, part); err == nil {
					w.Encrypt(se, w.Payload(2))
				}
			}
			w.CloseProc(old)
		}
		if otherRegion != "" {
			w.NextProcSuffix = otherRegion
			far := h.newProc()
			w.NextProcSuffix = ""
			for _, part := range h.parts {
				if se, err := w.Open(far, part); err == nil {
					w.Encrypt(se, w.Payload(2))
				}
			}
			w.CloseProc(far)
		}
		h.newProc()
		if faulty {
			enableRandomFaults(w, t, []string{"ms.err", "ms.errafter", "ms.falsedup", "kms.err", "aead.err", "alloc.err", "latency"}, h.base.Expire, h.base.Revoke)
		}
		disturbed := 0 // number of state-disturbing operations so far
		recDisturb := map[int]int{}
		crossed := false
		h.hooks.afterEncrypt = func(se *world.Sess, rec *world.Rec, op *world.OpRec) {
			if rec == nil {
				if op.Faulted == 0 && op.Panic == "" {
					w.Violate("encrypt-failed", "encrypt-failed/no-fault", "encrypt failed although nothing was injected into it: %v (op %d)", op.Err, op.Idx)
				}
				return
			}
			recDisturb[rec.N] = disturbed
		}
		h.hooks.afterDecrypt = func(se *world.Sess, rec *world.Rec, got []byte, op *world.OpRec) {
			count(st.Oracle, "decrypt-roundtrip")
			if op.Panic != "" {
				return
			}
			if op.Err != nil {
				if op.Faulted == 0 {
					w.Violate("decrypt-failed", "decrypt-failed/"+decryptCtx(w, rec, se), "record r%d (partition %q, IK@%d) produced by a successful encrypt did not decrypt in session s%d of process %d: %v", rec.N, rec.Part, rec.IKCreated, se.N, se.P.ID, op.Err)
				}
				return
			}
			if !bytes.Equal(got, rec.Payload) {
				w.Violate("wrong-plaintext", "wrong-plaintext", "record r%d decrypted to %d bytes that differ from the %d-byte original payload", rec.N, len(got), len(rec.Payload))
			}
			if recDisturb[rec.N] < disturbed {
				crossed = true
			}
		}
		h.hooks.afterOp = func(k int) {
			switch k {
			case opAdvance, opRevoke, opForeignRotate, opRestart, opCrash:
				disturbed++
			}
		}
		n := 5 + t.Choose(scale(o, 56, 160), "nops")
		for i := 0; i < n && len(w.Viols) == 0; i++ {
			h.step()
		}
		// final sweep with faults off: every record decrypts through the reference implementation
		// over a store snapshot, and through a brand-new process.
		w.Faults.Off = true
		snap := w.Snapshot()
		fresh := w.NewProc(world.GenPolicy(t, h.gen))
		sess := map[string]*world.Sess{}
		for _, rec := range w.Recs {
			if len(w.Viols) > 0 {
				break
			}
			count(st.Oracle, "final-refimpl")
			got, err := refimpl.Decrypt(snap, w.KMS, rec.JSON)
			if err != nil {
				w.Violate("refimpl-cannot-decrypt", "refimpl-cannot-decrypt", "reference decryptor over the metastore snapshot cannot decrypt r%d (partition %q, IK %s@%d): %v", rec.N, rec.Part, rec.IKID, rec.IKCreated, err)
				break
			}
			if !bytes.Equal(got, rec.Payload) {
				w.Violate("refimpl-wrong-plaintext", "refimpl-wrong-plaintext", "reference decryptor obtained different bytes for r%d", rec.N)
				break
			}
			se := sess[rec.Part]
			if se == nil {
				var err error
				se, err = w.Open(fresh, rec.Part)
				if err != nil {
					w.Violate("open-failed", "open-failed", "GetSession(%q) failed on a fresh process: %v", rec.Part, err)
					break
				}
				sess[rec.Part] = se
			}
			count(st.Oracle, "final-fresh-process")
			got2, op := w.Decrypt(se, &rec.DRR)
			if op.Panic != "" {
				break
			}
			if op.Err != nil {
				w.Violate("decrypt-failed", "decrypt-failed/fresh-process", "a fresh process cannot decrypt r%d (partition %q, IK@%d): %v", rec.N, rec.Part, rec.IKCreated, op.Err)
				break
			}
			if !bytes.Equal(got2, rec.Payload) {
				w.Violate("wrong-plaintext", "wrong-plaintext/fresh-process", "fresh process decrypted r%d to different bytes", rec.N)
			}
		}
		st.Nontrivial = crossed
		st.Class = fmt.Sprintf("%s|%s|%v", h.base.Class(), kindsUsed(w), faultKinds(w))
		st.Sample = map[string]any{"history": h.trace, "records": len(w.Recs), "faulty": faulty}
	})
	out = finish(s, w, st, true)
	return out
}

func decryptCtx(w *world.World, rec *world.Rec, se *world.Sess) string {
	same := "other-proc"
	if rec.Proc == se.P.ID {
		same = "same-proc"
	}
	return same
}

func faultKinds(w *world.World) []string {
	var ks []string
	for k := range w.Faults.Fired {
		ks = append(ks, k)
	}
	sortStrings(ks)
	return ks
}

// allowTinyLFU gates the tinylfu key-cache policy in world simulations.
var allowTinyLFU = true
