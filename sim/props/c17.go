package props

import (
	"bytes"
	"context"
	"crypto/aes"
	"crypto/cipher"
	"encoding/json"
	"errors"
	"fmt"
	"sort"
	"time"

	"github.com/aws/aws-sdk-go-v2/aws"
	kmsv2 "github.com/aws/aws-sdk-go-v2/service/kms"
	awsv1 "github.com/aws/aws-sdk-go/aws"
	"github.com/aws/aws-sdk-go/aws/request"
	kmsv1 "github.com/aws/aws-sdk-go/service/kms"
	"github.com/godaddy/asherah/go/appencryption"
	"github.com/godaddy/asherah/go/appencryption/pkg/crypto/aead"
	pluginv1 "github.com/godaddy/asherah/go/appencryption/plugins/aws-v1/kms"
	pluginv2 "github.com/godaddy/asherah/go/appencryption/plugins/aws-v2/kms"

	"verif/sim/simrt"
	"verif/sim/world"
)

func init() {
	register(&Property{
		ID:    "C17",
		Level: "fault_enumeration",
		Rule: "one case = (number of regions 1-4) x (preferred region) x (subset of regions failing at wrap time) x (subset failing at unwrap time) x (wrapping plugin v1|v2) x (unwrapping plugin v1|v2), run against fake regional KMS nodes (own master key per region) with the regional fan-out goroutines under the simulator's scheduler; every combination is enumerated, then failure modes (error / wrong plaintext returned), schedules and separate Generate/Encrypt failures are sampled; " +
			"non-trivial = at least one region failed at wrap or unwrap time; distinct = distinct (regions, preferred, wrap mask, unwrap mask, plugin pair, failure mode) tuples",
		Run:         runC17,
		Sweep:       sweepC17,
		QuickSec:    12,
		ThoroughSec: 300,
		Assumptions: []string{
			"AWS KMS is replaced by fake regional nodes behind the plugins' client interfaces (v1: exported AWSKMSClient.KMS field after NewAWS; v2: Builder.WithKMSFactory/WithAWSConfig); the fakes are trusted",
			"order among non-preferred regions is not asserted",
		},
	})
}

var c17Regions = []string{"us-west-2", "us-east-1", "eu-west-1", "ap-south-1"}

func sweepC17(tier string) [][]uint32 {
	var out [][]uint32
	for n := 1; n <= 4; n++ {
		for p := 0; p < n; p++ {
			for wm := 0; wm < 1<<n; wm++ {
				for um := 0; um < 1<<n; um++ {
					for pair := 0; pair < 4; pair++ {
						if tier != "thorough" && n == 4 && (wm+um+pair)%3 != 0 {
							continue
						}
						out = append(out, []uint32{1, uint32(n - 1), uint32(p), uint32(wm), uint32(um), uint32(pair)})
					}
				}
			}
		}
	}
	return out
}

// fakeRegion is one regional KMS node.
type fakeRegion struct {
	s                         *simrt.Sim
	region                    string
	arn                       string
	alias                     string // another identifier of the same master key (alias ARN, bare key id) the node accepts
	master                    []byte
	failGen, failEnc, failDec bool
	wrongPlain                bool
	errKind                   int           // which error a failing call returns, see failure()
	lat                       time.Duration // how long a call to this region takes (simulated time)
	cancelled                 int           // calls given up because the request context was done
	wrongKey                  int           // requests naming a master key this region does not have
	log                       *[]string
	handed                    *[][]byte // plaintext data keys this node returned (retained to check wiping)
	rnd                       *simrt.Rand
	onHand                    func([]byte) // told about every plaintext data key this node hands out
}

// failure returns the error of a failing regional call: a service error, or a timeout-kind error of
// the client (the caller's own context stays alive in every case).
func (f *fakeRegion) failure() error {
	switch f.errKind {
	case 1:
		return context.DeadlineExceeded
	case 2:
		return fmt.Errorf("RequestError: send request failed: %w", context.DeadlineExceeded)
	case 3:
		return context.Canceled
	case 4:
		return fmt.Errorf("operation error KMS: %w", context.Canceled)
	}
	return errors.New("KMSInternalException")
}

// knows checks the key id of a request the way a regional endpoint does: it only has its own master
// key; Encrypt and GenerateDataKey must name it, Decrypt may (a symmetric ciphertext names its key).
func (f *fakeRegion) knows(keyID *string, required bool) error {
	if keyID == nil {
		if required {
			return errors.New("ValidationException: KeyId is required")
		}
		return nil
	}
	if *keyID != f.arn && (f.alias == "" || *keyID != f.alias) {
		f.wrongKey++
		if required {
			return errors.New("NotFoundException: key " + *keyID + " does not exist in " + f.region)
		}
		return errors.New("IncorrectKeyException: the key id in the request does not identify the key that encrypted the ciphertext")
	}
	return nil
}

// slow lets the region's latency pass on the simulated clock; like the real clients it gives up with
// the context's error as soon as the request context is done.
func (f *fakeRegion) slow(ctx context.Context) error {
	if f.lat > 0 && ctx.Err() == nil {
		woke := false
		h := f.s.AddTimer(f.lat, func() { woke = true })
		f.s.Block("kms.latency", func() bool { return woke || ctx.Err() != nil })
		h.Cancel()
	}
	if err := ctx.Err(); err != nil {
		f.cancelled++
		return fmt.Errorf("operation error KMS: request canceled: %w", err)
	}
	return nil
}

// regionLatencies: most regions answer at once, some take longer than any plausible client-side wait.
var regionLatencies = []time.Duration{0, 0, 0, 0, 120 * time.Millisecond, 800 * time.Millisecond, 4 * time.Second, 45 * time.Second}

func (f *fakeRegion) gcm() cipher.AEAD {
	b, _ := aes.NewCipher(f.master)
	g, _ := cipher.NewGCM(b)
	return g
}

func (f *fakeRegion) seal(plain []byte) []byte {
	nonce := make([]byte, 12)
	f.rnd.Fill(nonce)
	return append(append([]byte(f.region+"|"), nonce...), f.gcm().Seal(nil, nonce, plain, nil)...)
}

func (f *fakeRegion) open(blob []byte) ([]byte, error) {
	pre := []byte(f.region + "|")
	if !bytes.HasPrefix(blob, pre) || len(blob) < len(pre)+12+16 {
		return nil, errors.New("InvalidCiphertextException")
	}
	blob = blob[len(pre):]
	return f.gcm().Open(nil, blob[:12], blob[12:], nil)
}

func (f *fakeRegion) generate(ctx context.Context) ([]byte, []byte, error) {
	f.s.Point(simrt.KSeam, "kms.generate")
	if err := f.slow(ctx); err != nil {
		return nil, nil, err
	}
	*f.log = append(*f.log, "gen:"+f.region)
	if f.failGen {
		return nil, nil, f.failure()
	}
	plain := make([]byte, 32)
	f.rnd.Fill(plain)
	*f.handed = append(*f.handed, plain)
	if f.onHand != nil {
		f.onHand(plain)
	}
	return plain, f.seal(plain), nil
}

func (f *fakeRegion) encrypt(ctx context.Context, plain []byte) ([]byte, error) {
	f.s.Point(simrt.KSeam, "kms.encrypt")
	if err := f.slow(ctx); err != nil {
		return nil, err
	}
	*f.log = append(*f.log, "enc:"+f.region)
	// the request buffer holds the plaintext data key as well: it is retained like the ones handed out
	*f.handed = append(*f.handed, plain)
	if f.failEnc {
		return nil, f.failure()
	}
	return f.seal(plain), nil
}

func (f *fakeRegion) decrypt(ctx context.Context, blob []byte) ([]byte, error) {
	f.s.Point(simrt.KSeam, "kms.decrypt")
	if err := f.slow(ctx); err != nil {
		return nil, err
	}
	*f.log = append(*f.log, "dec:"+f.region)
	if f.failDec && !f.wrongPlain {
		return nil, f.failure()
	}
	p, err := f.open(blob)
	if err != nil {
		return nil, err
	}
	if f.failDec && f.wrongPlain {
		q := append([]byte(nil), p...)
		q[0] ^= 0xff
		*f.handed = append(*f.handed, q)
		return q, nil
	}
	*f.handed = append(*f.handed, p)
	return p, nil
}

// v1 client
type fakeV1 struct{ f *fakeRegion }

func (c fakeV1) EncryptWithContext(ctx awsv1.Context, in *kmsv1.EncryptInput, _ ...request.Option) (*kmsv1.EncryptOutput, error) {
	if err := c.f.knows(in.KeyId, true); err != nil {
		return nil, err
	}
	b, err := c.f.encrypt(ctx, in.Plaintext)
	if err != nil {
		return nil, err
	}
	return &kmsv1.EncryptOutput{CiphertextBlob: b, KeyId: in.KeyId}, nil
}
func (c fakeV1) GenerateDataKeyWithContext(ctx awsv1.Context, in *kmsv1.GenerateDataKeyInput, _ ...request.Option) (*kmsv1.GenerateDataKeyOutput, error) {
	if err := c.f.knows(in.KeyId, true); err != nil {
		return nil, err
	}
	p, b, err := c.f.generate(ctx)
	if err != nil {
		return nil, err
	}
	return &kmsv1.GenerateDataKeyOutput{Plaintext: p, CiphertextBlob: b, KeyId: awsv1.String(c.f.arn)}, nil
}
func (c fakeV1) DecryptWithContext(ctx awsv1.Context, in *kmsv1.DecryptInput, _ ...request.Option) (*kmsv1.DecryptOutput, error) {
	if err := c.f.knows(in.KeyId, false); err != nil {
		return nil, err
	}
	p, err := c.f.decrypt(ctx, in.CiphertextBlob)
	if err != nil {
		return nil, err
	}
	return &kmsv1.DecryptOutput{Plaintext: p, KeyId: awsv1.String(c.f.arn)}, nil
}

// v2 client
type fakeV2 struct{ f *fakeRegion }

func (c fakeV2) Encrypt(ctx context.Context, in *kmsv2.EncryptInput, _ ...func(*kmsv2.Options)) (*kmsv2.EncryptOutput, error) {
	if err := c.f.knows(in.KeyId, true); err != nil {
		return nil, err
	}
	b, err := c.f.encrypt(ctx, in.Plaintext)
	if err != nil {
		return nil, err
	}
	return &kmsv2.EncryptOutput{CiphertextBlob: b, KeyId: in.KeyId}, nil
}
func (c fakeV2) GenerateDataKey(ctx context.Context, in *kmsv2.GenerateDataKeyInput, _ ...func(*kmsv2.Options)) (*kmsv2.GenerateDataKeyOutput, error) {
	if err := c.f.knows(in.KeyId, true); err != nil {
		return nil, err
	}
	p, b, err := c.f.generate(ctx)
	if err != nil {
		return nil, err
	}
	return &kmsv2.GenerateDataKeyOutput{Plaintext: p, CiphertextBlob: b, KeyId: aws.String(c.f.arn)}, nil
}
func (c fakeV2) Decrypt(ctx context.Context, in *kmsv2.DecryptInput, _ ...func(*kmsv2.Options)) (*kmsv2.DecryptOutput, error) {
	if err := c.f.knows(in.KeyId, false); err != nil {
		return nil, err
	}
	p, err := c.f.decrypt(ctx, in.CiphertextBlob)
	if err != nil {
		return nil, err
	}
	return &kmsv2.DecryptOutput{Plaintext: p, KeyId: aws.String(c.f.arn)}, nil
}

type kmsEnvelope struct {
	EncryptedKey []byte `json:"encryptedKey"`
	KMSKEKs      []struct {
		Region       string `json:"region"`
		ARN          string `json:"arn"`
		EncryptedKEK []byte `json:"encryptedKek"`
	} `json:"kmsKeks"`
}

func runC17(t *simrt.Tape, o Opts) Outcome {
	swept := t.Choose(2, "mode.sweep") == 1
	n := 1 + t.Choose(4, "nregions")
	pref := t.Choose(n, "preferred")
	wm := t.Choose(1<<n, "wrapmask")
	um := t.Choose(1<<n, "unwrapmask")
	pair := t.Choose(4, "pair")
	cfg := schedCfg(t, o, true)
	var st Stats
	st.Oracle = map[string]int{}
	st.Faults = map[string]int{}
	var viols []world.Violation
	violate := func(sig, format string, a ...any) {
		if len(viols) == 0 {
			viols = append(viols, world.Violation{Prop: "C17", Rule: sig, Signature: "C17/" + sig, Msg: fmt.Sprintf(format, a...)})
		}
	}
	mode := "error"
	genOnly, encOnly := false, false
	s := simrt.Run(t, cfg, func(s *simrt.Sim) {
		if !swept {
			switch t.Choose(4, "failmode") {
			case 1:
				mode = "wrong-plaintext"
			case 2:
				genOnly, mode = true, "generate-only"
			case 3:
				encOnly, mode = true, "encrypt-only"
			}
		}
		rnd := simrt.NewRand(uint64(t.Choose(1<<20, "seed")) + 5)
		regions := c17Regions[:n]
		arn := map[string]string{}
		for _, r := range regions {
			arn[r] = "arn:aws:kms:" + r + ":111122223333:key/" + r
		}
		// the configuration may name the master keys by alias ARN or bare key id (all valid KeyId values);
		// the service reports the key ARN in its responses whatever the request named
		keyARN := map[string]string{}
		byAlias := !swept && t.Choose(5, "keys-configured-by-alias") == 1
		for _, r := range regions {
			keyARN[r] = arn[r]
			if byAlias {
				if t.Choose(2, "alias.kind") == 0 {
					arn[r] = "arn:aws:kms:" + r + ":111122223333:alias/asherah"
				} else {
					arn[r] = "1234abcd-12ab-34cd-56ef-" + r
				}
			}
		}
		var log []string
		var handed [][]byte
		mkNodes := func() map[string]*fakeRegion {
			m := map[string]*fakeRegion{}
			for i, r := range regions {
				mk := make([]byte, 32)
				for k := range mk {
					mk[k] = byte(i*37 + k)
				}
				m[r] = &fakeRegion{s: s, region: r, arn: keyARN[r], master: mk, log: &log, handed: &handed, rnd: rnd}
				if byAlias {
					m[r].alias = arn[r]
				}
			}
			return m
		}
		if byAlias {
			st.Faults["config.master-keys-named-by-alias"]++
		}
		crypto := &flakyAEAD{AEAD: aead.NewAES256GCM()}
		// the AWS configuration handed to the v2 builder may already carry a region (AWS_REGION set,
		// or a shared config): each regional client must still talk to its own region
		cfgRegion := ""
		if !swept && t.Choose(3, "aws-config-region") == 1 {
			cfgRegion = regions[t.Choose(len(regions), "aws-config-region.which")]
		}
		// the reader may name the same master keys by another of their identifiers than the writer did
		// (the writer by alias, the reader by key ARN): the envelope's arn fields are informational
		readerARN := arn
		if byAlias && t.Choose(2, "reader-names-keys-by-key-arn") == 1 {
			readerARN = keyARN
			st.Faults["config.reader-names-keys-differently"]++
		}
		build := func(v2 bool, nodes map[string]*fakeRegion, arn map[string]string) (appencryption.KeyManagementService, error) {
			if v2 {
				b := pluginv2.NewBuilder(crypto, arn).WithPreferredRegion(regions[pref]).WithAWSConfig(aws.Config{Region: cfgRegion}).
					WithKMSFactory(func(cfg aws.Config, _ ...func(*kmsv2.Options)) pluginv2.AWSClient { return fakeV2{nodes[cfg.Region]} })
				return b.Build()
			}
			k, err := pluginv1.NewAWS(crypto, regions[pref], arn)
			if err != nil {
				return nil, err
			}
			for i := range k.Clients {
				k.Clients[i].KMS = fakeV1{nodes[k.Clients[i].Region]}
			}
			return k, nil
		}
		wrapNodes, unwrapNodes := mkNodes(), mkNodes()
		if !swept {
			ek := t.Choose(5, "errkind")
			for _, r := range regions {
				wrapNodes[r].errKind, unwrapNodes[r].errKind = ek, ek
			}
		}
		if !swept && t.Choose(2, "slow-regions") == 1 {
			// some regions answer slowly (the request context of the caller stays alive throughout)
			for _, r := range regions {
				wrapNodes[r].lat = regionLatencies[t.Choose(len(regionLatencies), "region.latency")]
				unwrapNodes[r].lat = regionLatencies[t.Choose(len(regionLatencies), "region.latency")]
			}
		}
		for i, r := range regions {
			if wm>>i&1 == 1 {
				wrapNodes[r].failGen = !encOnly
				wrapNodes[r].failEnc = !genOnly
				if !encOnly {
					st.Faults["region.generate-data-key-fails"]++
				}
				if !genOnly {
					st.Faults["region.encrypt-fails"]++
				}
				if wrapNodes[r].errKind != 0 {
					st.Faults["region.fails-with-timeout-or-cancel-kind-error"]++
				}
			}
			if um>>i&1 == 1 {
				unwrapNodes[r].failDec = true
				unwrapNodes[r].wrongPlain = mode == "wrong-plaintext"
				if unwrapNodes[r].wrongPlain {
					st.Faults["region.decrypts-to-other-bytes"]++
				} else {
					st.Faults["region.decrypt-fails"]++
				}
			}
			if wrapNodes[r].lat > 0 || unwrapNodes[r].lat > 0 {
				st.Faults["region.slow"]++
			}
		}
		if cfgRegion != "" {
			st.Faults["aws-config.region-preset"]++
		}
		wrapper, err := build(pair&1 == 1, wrapNodes, arn)
		if err != nil {
			violate("build-failed", "cannot build plugin: %v", err)
			return
		}
		unwrapper, err := build(pair&2 == 2, unwrapNodes, readerARN)
		if err != nil {
			violate("build-failed", "cannot build plugin: %v", err)
			return
		}
		// one long-lived plugin instance may do both (a service that wraps a new system key and later
		// unwraps it): the regions' health at unwrap time is then set on the same nodes
		sameInstance := !swept && (pair&1 == 1) == (pair&2 == 2) && t.Choose(3, "same-instance") == 1
		if sameInstance {
			unwrapper = wrapper
		}
		// the local encryption of the system key under the fresh data key can fail after the data key
		// exists
		aeadFails := !swept && t.Choose(8, "aead-fails") == 1
		if aeadFails {
			crypto.failEncrypt = true
			st.Faults["aead.local-encrypt-fails"]++
		}
		sk := make([]byte, 32)
		rnd.Fill(sk)
		orig := append([]byte(nil), sk...)
		// ---- wrap
		count(st.Oracle, "wrap")
		blob, err := wrapper.EncryptKey(context.Background(), sk)
		canGenerate := false
		for i := range regions {
			if !(wm>>i&1 == 1 && !encOnly) {
				canGenerate = true
			}
		}
		desc := fmt.Sprintf("regions=%v preferred=%s wrap-failing=%04b unwrap-failing=%04b wrap=v%d unwrap=v%d mode=%s", regions, regions[pref], wm, um, 1+pair&1, 1+(pair>>1)&1, mode)
		if aeadFails && canGenerate {
			// the wrap must fail, and the data key it obtained must be wiped all the same
			count(st.Oracle, "wrap-with-failing-local-encryption")
			if err == nil {
				violate("wrap-result", "%s: wrapping succeeded although the local encryption of the key failed", desc)
				return
			}
			for _, h := range handed {
				for _, b := range h {
					if b != 0 {
						violate("data-key-not-wiped", "%s: the plaintext data key obtained from the KMS is not wiped after EncryptKey failed at the local encryption step", desc)
						return
					}
				}
			}
			return
		}
		if canGenerate != (err == nil) {
			violate("wrap-result", "%s: wrapping returned err=%v although a data key %s be generated", desc, err, map[bool]string{true: "could", false: "could not"}[canGenerate])
			return
		}
		for _, h := range handed {
			for _, b := range h {
				if b != 0 {
					violate("data-key-not-wiped", "%s: the plaintext data key obtained from the KMS is not wiped after EncryptKey returned", desc)
					return
				}
			}
		}
		if !bytes.Equal(sk, orig) {
			violate("input-modified", "%s: EncryptKey modified the caller's key bytes", desc)
			return
		}
		if err != nil {
			return
		}
		var env kmsEnvelope
		if jerr := json.Unmarshal(blob, &env); jerr != nil {
			violate("envelope-format", "%s: envelope is not the documented JSON: %v", desc, jerr)
			return
		}
		// which regions must have an entry: the generating region (first in client order able to generate)
		// plus every other region whose Encrypt works
		have := map[string]int{}
		for _, k := range env.KMSKEKs {
			have[k.Region]++
			if k.ARN != arn[k.Region] {
				violate("envelope-arn", "%s: entry for %s carries ARN %s", desc, k.Region, k.ARN)
				return
			}
		}
		genRegion := ""
		for _, l := range log {
			if len(l) > 4 && l[:4] == "gen:" && !wrapNodes[l[4:]].failGen {
				genRegion = l[4:]
				break
			}
		}
		var want []string
		optional := ""
		for i, r := range regions {
			failing := wm>>i&1 == 1
			encryptFails := failing && !genOnly
			if byAlias {
				// the plugin cannot tell which configured key the data key came from, so the generating
				// region is asked to Encrypt like the others: its entry is owed when that call works
				// and tolerated (the generated blob) when it does not
				if !encryptFails {
					want = append(want, r)
				} else if r == genRegion {
					optional = r
				}
				continue
			}
			if r == genRegion || !encryptFails {
				want = append(want, r)
			}
		}
		if optional != "" && have[optional] == 1 {
			want = append(want, optional)
		}
		var got []string
		var haveKeys []string
		for r := range have {
			haveKeys = append(haveKeys, r)
		}
		sort.Strings(haveKeys)
		for _, r := range haveKeys {
			c := have[r]
			if c != 1 {
				violate("duplicate-entry", "%s: %d entries for region %s", desc, c, r)
				return
			}
			got = append(got, r)
		}
		sort.Strings(got)
		sort.Strings(want)
		count(st.Oracle, "envelope-entries")
		if fmt.Sprint(got) != fmt.Sprint(want) {
			violate("envelope-entries", "%s: envelope has entries for %v, the regions that succeeded are %v", desc, got, want)
			return
		}
		// ---- unwrap
		if sameInstance {
			for r, nd := range wrapNodes {
				un := unwrapNodes[r]
				nd.failGen, nd.failEnc, nd.failDec, nd.wrongPlain, nd.lat = false, false, un.failDec, un.wrongPlain, un.lat
			}
		}
		log = nil
		handed = nil
		count(st.Oracle, "unwrap")
		out, err := unwrapper.DecryptKey(context.Background(), blob)
		canUnwrap := false
		for i, r := range regions {
			if have[r] == 1 && um>>i&1 == 0 {
				canUnwrap = true
			}
		}
		if canUnwrap != (err == nil) {
			violate("unwrap-result", "%s: unwrapping returned err=%v although %s region holding an entry is able to decrypt (entries %v)", desc, err, map[bool]string{true: "a", false: "no"}[canUnwrap], got)
			return
		}
		if err == nil && !bytes.Equal(out, orig) {
			violate("unwrap-bytes", "%s: unwrapped key differs from the wrapped one", desc)
			return
		}
		count(st.Oracle, "preferred-first")
		if len(log) > 0 && have[regions[pref]] == 1 && log[0] != "dec:"+regions[pref] {
			violate("preferred-not-first", "%s: first decrypt attempt went to %s, not to the preferred region", desc, log[0])
			return
		}
		for _, l := range log {
			r := l[4:]
			if have[r] == 0 {
				violate("decrypt-without-entry", "%s: region %s was asked to decrypt although the envelope has no entry for it", desc, r)
				return
			}
		}
		// the same plugin object unwraps the same envelope again (a rebuilt factory, a system key evicted
		// from its cache, caching off): the consumer of the first result wiped it, as the SDK does
		// when it moves the key into protected memory
		if err == nil && !swept {
			for i := range out {
				out[i] = 0
			}
			count(st.Oracle, "unwrap-again")
			again, err2 := unwrapper.DecryptKey(context.Background(), blob)
			if err2 != nil {
				violate("unwrap-result", "%s: a second unwrap of the same envelope through the same plugin object failed: %v", desc, err2)
				return
			}
			if !bytes.Equal(again, orig) {
				violate("unwrap-bytes", "%s: a second unwrap of the same envelope through the same plugin object (the first result was wiped by its consumer) returned other bytes", desc)
				return
			}
		}
	})
	out := Outcome{Viols: viols}
	st.Nontrivial = wm != 0 || um != 0
	st.Class = fmt.Sprintf("%d/%d/%d/%d/%d/%s", n, pref, wm, um, pair, mode)
	st.Sample = map[string]any{"regions": n, "preferred": pref, "wrap_failing_mask": wm, "unwrap_failing_mask": um, "wrap_plugin": 1 + pair&1, "unwrap_plugin": 1 + (pair>>1)&1, "mode": mode}
	fo := finish(s, nil, st, true)
	out.Stats, out.Infra, out.Log = fo.Stats, fo.Infra, fo.Log
	if f := s.Failure(); f != nil && len(out.Viols) == 0 {
		switch f.Kind {
		case simrt.FailDeadlock:
			out.Infra = nil
			out.Viols = append(out.Viols, world.Violation{Prop: "C17", Rule: "deadlock", Signature: "C17/deadlock", Msg: f.Msg})
		case simrt.FailPanic:
			out.Infra = nil
			out.Viols = append(out.Viols, world.Violation{Prop: "C17", Rule: "panic", Signature: "C17/" + panicKind(f.Msg), Msg: f.Msg + "\n" + f.Stack})
		}
	}
	return out
}

// flakyAEAD is the repository's AES-256-GCM whose Encrypt (the local encryption of the system key
// under the fresh data key) can be made to fail once.
type flakyAEAD struct {
	appencryption.AEAD
	failEncrypt bool
}

func (a *flakyAEAD) Encrypt(data, key []byte) ([]byte, error) {
	if a.failEncrypt {
		a.failEncrypt = false
		return nil, errors.New("cipher: injected failure of the local encryption")
	}
	return a.AEAD.Encrypt(data, key)
}
