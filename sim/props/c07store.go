package props

import (
	"context"
	"fmt"
	"runtime/debug"
	"strings"
	"time"

	awsv1 "github.com/aws/aws-sdk-go/aws"
	sessv1 "github.com/aws/aws-sdk-go/aws/session"
	"github.com/godaddy/asherah/go/appencryption"
	"github.com/godaddy/asherah/go/appencryption/pkg/crypto/aead"
	"github.com/godaddy/asherah/go/appencryption/pkg/kms"
	"github.com/godaddy/asherah/go/appencryption/pkg/persistence"
	ddbv1 "github.com/godaddy/asherah/go/appencryption/plugins/aws-v1/persistence"
	ddbv2 "github.com/godaddy/asherah/go/appencryption/plugins/aws-v2/dynamodb/metastore"

	"verif/sim/fakes"
	"verif/sim/simrt"
	"verif/sim/world"
)

// Key rows that some other writer (a broken tool, a half-finished migration, a hand edit) left in
// the real back ends: the repository's own metastore implementations read them, and a session built
// on them decrypts a record that names such a row. Load, LoadLatest, Decrypt and Encrypt answer with
// a record or an error; none of them panics.
var c07SQLJunk = []string{
	`null`, `{}`, `[]`, `"x"`, `123`, ``, `{`, `{"Key":null}`, `{"Key":"!!!"}`, `{"Created":"x"}`,
	`{"Key":"AAAA","Created":1,"ParentKeyMeta":null}`, `{"Key":"AAAA","Created":1,"ParentKeyMeta":{}}`,
	`{"Key":"AAAA","Created":1,"ParentKeyMeta":{"KeyId":"_SK_svc_prod","Created":1}}`,
	`{"Key":"","Created":-1,"Revoked":true}`, `true`,
}

func c07DDBJunk(i int, id string, created int64) fakes.Item {
	S := func(s string) fakes.Val { return fakes.Val{Kind: 'S', S: s} }
	N := func(s string) fakes.Val { return fakes.Val{Kind: 'N', S: s} }
	M := func(m map[string]fakes.Val) fakes.Val { return fakes.Val{Kind: 'M', M: m} }
	it := fakes.Item{"Id": S(id), "Created": N(fmt.Sprint(created))}
	switch i {
	case 0: // no KeyRecord at all
	case 1:
		it["KeyRecord"] = S("x")
	case 2:
		it["KeyRecord"] = M(map[string]fakes.Val{})
	case 3:
		it["KeyRecord"] = M(map[string]fakes.Val{"Key": N("1"), "Created": S("x")})
	case 4:
		it["KeyRecord"] = M(map[string]fakes.Val{"Key": S("!!!"), "Created": N("1")})
	case 5:
		it["KeyRecord"] = M(map[string]fakes.Val{"Key": S("AAAA"), "Created": N("1"), "ParentKeyMeta": S("x")})
	case 6:
		it["KeyRecord"] = M(map[string]fakes.Val{"Key": S("AAAA"), "Created": N("1"), "ParentKeyMeta": M(map[string]fakes.Val{})})
	case 7:
		it["KeyRecord"] = M(map[string]fakes.Val{"Key": S("AAAA"), "Created": N("1"), "ParentKeyMeta": M(map[string]fakes.Val{"KeyId": N("1"), "Created": S("y")})})
	case 8:
		it["KeyRecord"] = fakes.Val{Kind: 'Z'}
	case 9:
		it["KeyRecord"] = M(map[string]fakes.Val{"Key": S("AAAA"), "Created": N("1"), "Revoked": S("yes"), "ParentKeyMeta": M(map[string]fakes.Val{"KeyId": S("_SK_svc_prod"), "Created": N("1")})})
	default:
		it["KeyRecord"] = M(map[string]fakes.Val{"Key": fakes.Val{Kind: 'Z'}, "Created": fakes.Val{Kind: 'Z'}})
	}
	return it
}

const c07DDBJunkKinds = 11

func runC07StoreJunk(t *simrt.Tape, o Opts) Outcome {
	impls := []string{"sql-mysql", "sql-postgres", "sql-oracle", "dynamodb-v1", "dynamodb-v2"}
	impl := impls[t.Choose(len(impls), "impl")]
	cfg := schedCfg(t, o, false)
	var st Stats
	st.Oracle = map[string]int{}
	st.Faults = map[string]int{}
	var viols []world.Violation
	violate := func(sig, format string, a ...any) {
		if len(viols) == 0 {
			viols = append(viols, world.Violation{Prop: "C07", Rule: strings.SplitN(sig, "/", 2)[0], Signature: "C07/" + sig, Msg: fmt.Sprintf(format, a...)})
		}
	}
	var infra *simrt.Failure
	junkDesc := ""
	s := simrt.Run(t, cfg, func(s *simrt.Sim) {
		defer func() {
			if r := recover(); r != nil {
				if he, ok := r.(fakes.HarnessError); ok {
					infra = &simrt.Failure{Kind: simrt.FailHarness, Msg: he.Error()}
					return
				}
				panic(r)
			}
		}()
		const ikID, skID = "_IK_a_svc_prod", "_SK_svc_prod"
		created := int64(1893456000)
		junkIsSK := t.Choose(3, "junk.row") == 0
		id := ikID
		if junkIsSK {
			id = skID
		}
		var ms appencryption.Metastore
		if strings.HasPrefix(impl, "sql-") {
			dialect := strings.TrimPrefix(impl, "sql-")
			db := fakes.NewSQLDB(s, dialect)
			h := db.Open()
			defer h.Close()
			switch dialect {
			case "mysql":
				ms = persistence.NewSQLMetastore(h)
			case "postgres":
				ms = persistence.NewSQLMetastore(h, persistence.WithSQLMetastoreDBType(persistence.Postgres))
			default:
				ms = persistence.NewSQLMetastore(h, persistence.WithSQLMetastoreDBType(persistence.Oracle))
			}
			j := c07SQLJunk[t.Choose(len(c07SQLJunk), "junk")]
			junkDesc = fmt.Sprintf("%s row (%s, %d) with key_record %q", impl, id, created, j)
			db.PutRaw(id, created, j)
		} else {
			d := fakes.NewDDB(s, "EncryptionKey")
			if impl == "dynamodb-v1" {
				sess := sessv1.Must(sessv1.NewSession(&awsv1.Config{Region: awsv1.String("us-west-2")}))
				ms = ddbv1.NewDynamoDBMetastore(sess, ddbv1.WithClient(fakes.V1{D: d}))
			} else {
				m, err := ddbv2.NewDynamoDB(ddbv2.WithDynamoDBClient(fakes.V2{D: d, Region: "us-west-2"}))
				if err != nil {
					violate("construct", "cannot construct the v2 metastore: %v", err)
					return
				}
				ms = m
			}
			k := t.Choose(c07DDBJunkKinds, "junk")
			it := c07DDBJunk(k, id, created)
			junkDesc = fmt.Sprintf("%s item (%s, %d) of malformed shape #%d", impl, id, created, k)
			d.PutRaw("EncryptionKey", it)
		}
		st.Faults["stored.malformed-key-row"]++
		guard := func(what string, fn func()) {
			defer func() {
				if r := recover(); r != nil {
					if he, ok := r.(fakes.HarnessError); ok {
						panic(he)
					}
					violate("panic-on-stored-junk/"+impl+"/"+what, "%s: %s panicked: %v @ %s", junkDesc, what, r, panicWhere(string(debug.Stack())))
				}
			}()
			fn()
		}
		ctx := context.Background()
		count(st.Oracle, "load-of-malformed-row")
		guard("Load", func() { ms.Load(ctx, id, created) })
		guard("LoadLatest", func() { ms.LoadLatest(ctx, id) })
		if len(viols) > 0 {
			return
		}
		// a session on top of it: a record naming the row (or a row under it) is refused, not crashed on
		crypto := aead.NewAES256GCM()
		km, err := kms.NewStatic("thisIsAStaticMasterKeyForTesting", crypto)
		if err != nil {
			return
		}
		pol := appencryption.NewCryptoPolicy()
		f := appencryption.NewSessionFactory(&appencryption.Config{Service: "svc", Product: "prod", Policy: pol}, ms, km, crypto)
		defer f.Close()
		var se *appencryption.Session
		guard("GetSession", func() { se, _ = f.GetSession("a") })
		if se == nil {
			return
		}
		defer se.Close()
		rnd := simrt.NewRand(uint64(t.Choose(1<<16, "seed")) + 17)
		ek := make([]byte, 60)
		rnd.Fill(ek)
		data := make([]byte, 40)
		rnd.Fill(data)
		drr := appencryption.DataRowRecord{Data: data, Key: &appencryption.EnvelopeKeyRecord{Created: time.Unix(created, 0).Unix(), EncryptedKey: ek, ParentKeyMeta: &appencryption.KeyMeta{ID: ikID, Created: created}}}
		count(st.Oracle, "decrypt-over-malformed-row")
		guard("Decrypt", func() {
			out, err := se.Decrypt(ctx, drr)
			if err == nil {
				violate("junk-decrypted", "%s: a made-up record decrypted to %d bytes without an error", junkDesc, len(out))
			}
		})
		count(st.Oracle, "encrypt-over-malformed-row")
		guard("Encrypt", func() { se.Encrypt(ctx, []byte("payload")) })
	})
	out := Outcome{Viols: viols}
	st.Nontrivial = true
	st.Class = "stored-junk|" + junkDesc
	st.Sample = map[string]any{"stored": junkDesc}
	faults := st.Faults
	fo := finish(s, nil, st, true)
	out.Stats, out.Infra, out.Log = fo.Stats, fo.Infra, fo.Log
	out.Stats.Faults = faults
	if infra != nil {
		out.Infra = infra
	}
	if f := s.Failure(); f != nil && len(out.Viols) == 0 && infra == nil {
		switch f.Kind {
		case simrt.FailDeadlock:
			out.Infra = nil
			out.Viols = append(out.Viols, world.Violation{Prop: "C07", Rule: "deadlock", Signature: "C07/deadlock/stored-junk", Msg: f.Msg})
		case simrt.FailPanic:
			out.Infra = nil
			out.Viols = append(out.Viols, world.Violation{Prop: "C07", Rule: "panic", Signature: "C07/" + panicKind(f.Msg), Msg: f.Msg + "\n" + f.Stack})
		}
	}
	return out
}
