package props

import (
	"bytes"
	"context"
	"errors"
	"fmt"
	"github.com/golang/protobuf/proto"
	"io"
	"runtime/debug"
	"strings"
	"time"

	"github.com/godaddy/asherah/go/appencryption"
	pb "github.com/godaddy/asherah/server/go/api"
	"github.com/godaddy/asherah/server/go/pkg/server"
	"google.golang.org/grpc/metadata"

	"verif/sim/simrt"
	"verif/sim/world"
)

func init() {
	register(&Property{
		ID:    "C19",
		Level: "exploration",
		Rule: "one case = one or several (concurrent or successive, 2-4) in-memory server streams, optionally after an earlier complete stream on the same service, driven through the real (*AppEncryption).Session handler over a real SessionFactory: request sequences over the alphabet {get-session valid / empty id, encrypt, decrypt genuine / foreign-partition / corrupted / empty record, empty request} terminated by end-of-stream, a Recv error or a Send error; all sequences up to length 4 (quick) / 5 (thorough) are enumerated, longer ones sampled; " +
			"non-trivial = the sequence reaches the handler with at least one request after a (successful or rejected) get-session; distinct = distinct request sequences (with fault placement)",
		Run:         runC19,
		Sweep:       sweepC19,
		QuickSec:    15,
		ThoroughSec: 420,
		Assumptions: []string{
			"the HTTP/2 transport is replaced by an in-memory stream implementing the generated AppEncryption_SessionServer interface; the service object is built over an existing factory by a constructor added in the build overlay",
			"a rejected get-session followed by another get-session may be answered with either an error or success (the property does not fix it); every other response kind is fixed by the protocol model",
		},
	})
}

const (
	rqGetOK = iota
	rqGetEmpty
	rqEncrypt
	rqDecGenuine
	rqDecForeign
	rqDecCorrupt
	rqDecEmpty
	rqEmpty
	rqKinds
)

var rqNames = [...]string{"get-session(a)", "get-session('')", "encrypt", "decrypt-genuine", "decrypt-foreign", "decrypt-corrupt", "decrypt-empty", "empty-request"}

func sweepC19(tier string) [][]uint32 {
	L := 4
	if tier == "thorough" {
		L = 5
	}
	var out [][]uint32
	var rec func(p []uint32, d, l int)
	rec = func(p []uint32, d, l int) {
		if d == l {
			out = append(out, append(append([]uint32(nil), p...), 0), append(append([]uint32(nil), p...), 1))
			return
		}
		for s := uint32(0); s < rqKinds; s++ {
			rec(append(p, s), d+1, l)
		}
	}
	for l := 0; l <= L; l++ {
		rec([]uint32{1, uint32(l)}, 0, l)
	}
	return out
}

// memStream is the in-memory transport for one client.
type memStream struct {
	s         *simrt.Sim
	reqs      []*pb.SessionRequest
	pos       int
	sent      []*pb.SessionResponse
	recvErrAt int // index at which Recv fails (-1 never)
	sendErrAt int
	fired     map[string]int
}

var errTransport = errors.New("verif: transport failure")

func (m *memStream) Recv() (*pb.SessionRequest, error) {
	m.s.Point(simrt.KSeam, "stream.recv")
	if m.pos == m.recvErrAt {
		if m.fired != nil {
			m.fired["transport.recv-error"]++
		}
		return nil, errTransport
	}
	if m.pos >= len(m.reqs) {
		return nil, io.EOF
	}
	r := m.reqs[m.pos]
	m.pos++
	return r, nil
}

func (m *memStream) Send(r *pb.SessionResponse) error {
	m.s.Point(simrt.KSeam, "stream.send")
	// what the client gets is what the wire codec makes of the message at this instant
	if r != nil {
		b, err := proto.Marshal(r)
		if err != nil {
			return err
		}
		r = new(pb.SessionResponse)
		if err := proto.Unmarshal(b, r); err != nil {
			return err
		}
	}
	m.sent = append(m.sent, r)
	if len(m.sent)-1 == m.sendErrAt {
		if m.fired != nil {
			m.fired["transport.send-error"]++
		}
		return errTransport
	}
	return nil
}
func (m *memStream) Context() context.Context     { return context.Background() }
func (m *memStream) SetHeader(metadata.MD) error  { return nil }
func (m *memStream) SendHeader(metadata.MD) error { return nil }
func (m *memStream) SetTrailer(metadata.MD)       {}
func (m *memStream) SendMsg(any) error            { return nil }
func (m *memStream) RecvMsg(any) error            { return nil }

func toPB(d *appencryption.DataRowRecord) *pb.DataRowRecord {
	return &pb.DataRowRecord{Data: d.Data, Key: &pb.EnvelopeKeyRecord{Created: d.Key.Created, Key: d.Key.EncryptedKey, ParentKeyMeta: &pb.KeyMeta{KeyId: d.Key.ParentKeyMeta.ID, Created: d.Key.ParentKeyMeta.Created}}}
}

func fromPB(d *pb.DataRowRecord) *appencryption.DataRowRecord {
	if d == nil || d.Key == nil || d.Key.ParentKeyMeta == nil {
		return nil
	}
	return &appencryption.DataRowRecord{Data: d.Data, Key: &appencryption.EnvelopeKeyRecord{Created: d.Key.Created, EncryptedKey: d.Key.Key, ParentKeyMeta: &appencryption.KeyMeta{ID: d.Key.ParentKeyMeta.KeyId, Created: d.Key.ParentKeyMeta.Created}}}
}

func runC19(t *simrt.Tape, o Opts) Outcome {
	swept := t.Choose(2, "mode.sweep") == 1
	var firstLen int
	var firstSeq []int
	if swept {
		firstLen = t.Choose(6, "len")
		for i := 0; i < firstLen; i++ {
			firstSeq = append(firstSeq, t.Choose(rqKinds, "rq"))
		}
	}
	nstreams := 1
	// prior: the service has already served one complete, successful stream (get-session, encrypt,
	// end-of-stream) before the streams under test; serial: the streams run one after the other.
	prior, serial := false, false
	if swept {
		prior = t.Choose(2, "prior-stream") == 1
	} else {
		nstreams = 1 + t.Choose(4, "nstreams")
		prior = t.Choose(3, "prior-stream") == 1
		serial = nstreams > 1 && t.Choose(3, "serial") == 1
	}
	cfg := schedCfg(t, o, nstreams > 1 && !serial)
	var w *world.World
	var st Stats
	s := simrt.Run(t, cfg, func(s *simrt.Sim) {
		w = world.New(s, "C19")
		st.Oracle = map[string]int{}
		pol := world.PolicyCfg{CacheSK: true, CacheIK: true, SKCap: 1000, IKCap: 1000, Expire: expiresC02, Revoke: revokesC02, Precision: precisionC02}
		if !swept {
			pol = world.GenPolicy(t, world.GenOpts{AllowTinyLFU: allowTinyLFU})
		}
		p := w.NewProc(pol)
		svc := server.NewAppEncryptionWithFactory(p.Factory)
		// the metastore and the KMS behind the sidecar may answer slowly (up to tens of seconds on the
		// simulated clock): a request simply takes that long, its reply is still its own
		if !swept && t.Choose(3, "slow-backends") == 1 {
			w.Faults.Kinds["latency"] = true
			w.LatencyMenu = []time.Duration{time.Millisecond, time.Second, 3 * time.Second, 30 * time.Second}
		}
		// the prepared genuine records may be records of an empty payload (a valid plaintext)
		priorClass := 2
		if t.Choose(4, "prior-record.empty-payload") == 1 {
			priorClass = 0
		}
		// one run in eight goes through the service's own constructor (its own in-memory metastore,
		// static KMS and memguard secrets) instead of the simulated deployment: what is checked there is
		// the sidecar against itself
		ownCtor := !swept && t.Choose(8, "own-constructor") == 1
		if ownCtor {
			svc = server.NewAppEncryption(&server.Options{ServiceName: "svc", ProductID: "prod", Metastore: "memory", KMS: "static",
				ExpireAfter: 90 * 24 * time.Hour, CheckInterval: time.Hour, EnableSessionCaching: t.Choose(2, "own-constructor.session-cache") == 1, SessionCacheMaxSize: 1000, SessionCacheDuration: 2 * time.Hour})
			defer server.CloseSessionFactory(svc)
		}
		// call runs one complete, fault-free stream and returns its responses
		call := func(reqs ...*pb.SessionRequest) []*pb.SessionResponse {
			ms := &memStream{s: s, recvErrAt: -1, sendErrAt: -1, reqs: reqs}
			func() {
				defer func() { recover() }()
				svc.Session(ms)
			}()
			return ms.sent
		}
		getSession := func(part string) *pb.SessionRequest {
			return &pb.SessionRequest{Request: &pb.SessionRequest_GetSession{GetSession: &pb.GetSession{PartitionId: part}}}
		}
		// roundtrip decrypts a record the sidecar produced for part: through the SDK session of the
		// simulated deployment, or (own constructor) through another stream of the sidecar itself
		var seOf map[string]*world.Sess
		roundtrip := func(part string, drr *appencryption.DataRowRecord) ([]byte, error) {
			if !ownCtor {
				out, op := w.Decrypt(seOf[part], drr)
				return out, op.Err
			}
			resp := call(getSession(part), &pb.SessionRequest{Request: &pb.SessionRequest_Decrypt{Decrypt: &pb.Decrypt{DataRowRecord: toPB(drr)}}})
			if len(resp) != 2 || resp[1].GetDecryptResponse() == nil {
				return nil, fmt.Errorf("the sidecar cannot decrypt its own record: %v", resp)
			}
			return resp[1].GetDecryptResponse().GetData(), nil
		}
		// material prepared beforehand: a genuine record per partition
		mk := func(part string) (*world.Rec, *world.Sess) {
			if ownCtor {
				pl := w.Payload(priorClass)
				resp := call(getSession(part), &pb.SessionRequest{Request: &pb.SessionRequest_Encrypt{Encrypt: &pb.Encrypt{Data: pl}}})
				if len(resp) != 2 || resp[1].GetEncryptResponse() == nil {
					return nil, nil
				}
				return &world.Rec{Part: part, Payload: pl, DRR: *fromPB(resp[1].GetEncryptResponse().GetDataRowRecord())}, nil
			}
			se, err := w.Open(p, part)
			if err != nil {
				return nil, nil
			}
			rec, _ := w.Encrypt(se, w.Payload(priorClass))
			return rec, se
		}
		// partition ids are caller-supplied free text: long ones that agree in their first 64 bytes, and
		// ones that differ only in white space, are different partitions
		partA, partB := "a", "b"
		if !swept {
			long := strings.Repeat("customer-0123456", 4)
			pairs := [][2]string{{"a", "b"}, {"a", "b"}, {long + "-alpha", long + "-beta"}, {"line\nbreak", "line break"}, {"tab\tid", "tab id"}, {"tenant-7  ", "tenant-7"}, {" lead", "lead"}}
			pr := pairs[t.Choose(len(pairs), "partition-pair")]
			partA, partB = pr[0], pr[1]
		}
		// a freshly started sidecar whose very first streams arrive together: nothing has gone through
		// the service before (own constructor only; the streams then only open sessions and encrypt)
		coldStart := ownCtor && nstreams > 1 && !serial && !prior && t.Choose(2, "cold-start") == 1
		var recA, recB *world.Rec
		var seA *world.Sess
		if coldStart {
			recA, recB = &world.Rec{Part: partA}, &world.Rec{Part: partB}
		} else {
			recA, seA = mk(partA)
			recB, _ = mk(partB)
		}
		if recA == nil || recB == nil {
			return
		}
		// concurrent and successive streams may each be a different client with its own partition (and
		// its own genuine record, with its own plaintext)
		streamParts := []string{partA, partA, partA, partA}
		recOf := map[string]*world.Rec{partA: recA}
		seOf = map[string]*world.Sess{partA: seA}
		if !swept && nstreams > 1 && t.Choose(2, "stream-partitions") == 1 {
			streamParts = []string{partA, "c", "d", "e"}
			for _, p := range streamParts[1:] {
				if coldStart {
					recOf[p] = &world.Rec{Part: p}
					continue
				}
				r, se := mk(p)
				if r == nil {
					return
				}
				recOf[p], seOf[p] = r, se
			}
		}
		partOf := func(idx int) string {
			if idx < 0 {
				return partA
			}
			return streamParts[idx%len(streamParts)]
		}
		type plan struct {
			seq       []int
			recvErrAt int
			sendErrAt int
		}
		plans := make([]plan, nstreams)
		for i := range plans {
			if swept {
				plans[i] = plan{firstSeq, -1, -1}
				continue
			}
			n := t.Choose(12, "len")
			if t.Choose(10, "long-stream") == 1 {
				// a long-lived client: dozens of requests on one stream, many of them rejected
				n = 40 + t.Choose(60, "long-stream.len")
			}
			pl := plan{recvErrAt: -1, sendErrAt: -1}
			for k := 0; k < n; k++ {
				// bias towards a valid get-session first
				if k == 0 && t.Choose(3, "startok") != 0 {
					pl.seq = append(pl.seq, rqGetOK)
					continue
				}
				pl.seq = append(pl.seq, t.Choose(rqKinds, "rq"))
			}
			if coldStart {
				// no record exists yet: a session and a few encrypts per stream
				pl.seq = []int{rqGetOK}
				for k := 1 + t.Choose(3, "cold.encrypts"); k > 0; k-- {
					pl.seq = append(pl.seq, rqEncrypt)
				}
			}
			switch t.Choose(5, "transport-fault") {
			case 1:
				pl.recvErrAt = t.Choose(n+1, "recverr")
			case 2:
				pl.sendErrAt = t.Choose(n+1, "senderr")
			}
			plans[i] = pl
		}
		reached := false
		runStream := func(idx int, pl plan) {
			ms := &memStream{s: s, recvErrAt: pl.recvErrAt, sendErrAt: pl.sendErrAt, fired: w.Faults.Fired}
			payloads := map[int][]byte{}
			myPart := partOf(idx)
			recA := recOf[myPart]
			for i, k := range pl.seq {
				var r *pb.SessionRequest
				switch k {
				case rqGetOK:
					r = &pb.SessionRequest{Request: &pb.SessionRequest_GetSession{GetSession: &pb.GetSession{PartitionId: myPart}}}
				case rqGetEmpty:
					r = &pb.SessionRequest{Request: &pb.SessionRequest_GetSession{GetSession: &pb.GetSession{PartitionId: ""}}}
				case rqEncrypt:
					pl := []byte(fmt.Sprintf("stream%d-msg%d-payload", idx, i))
					if (idx+i)%4 == 3 {
						pl = []byte{} // an empty payload is a valid plaintext
					}
					payloads[i] = pl
					r = &pb.SessionRequest{Request: &pb.SessionRequest_Encrypt{Encrypt: &pb.Encrypt{Data: pl}}}
				case rqDecGenuine:
					r = &pb.SessionRequest{Request: &pb.SessionRequest_Decrypt{Decrypt: &pb.Decrypt{DataRowRecord: toPB(&recA.DRR)}}}
				case rqDecForeign:
					r = &pb.SessionRequest{Request: &pb.SessionRequest_Decrypt{Decrypt: &pb.Decrypt{DataRowRecord: toPB(&recB.DRR)}}}
				case rqDecCorrupt:
					d := toPB(&recA.DRR)
					d.Data = append([]byte(nil), d.Data...)
					d.Data[0] ^= 1
					r = &pb.SessionRequest{Request: &pb.SessionRequest_Decrypt{Decrypt: &pb.Decrypt{DataRowRecord: d}}}
				case rqDecEmpty:
					// records that lack parts: no record, an empty one, a key without parent meta, a key
					// with an empty parent meta, data without key
					switch i % 5 {
					case 0:
						r = &pb.SessionRequest{Request: &pb.SessionRequest_Decrypt{Decrypt: &pb.Decrypt{}}}
					case 1:
						r = &pb.SessionRequest{Request: &pb.SessionRequest_Decrypt{Decrypt: &pb.Decrypt{DataRowRecord: &pb.DataRowRecord{}}}}
					case 2:
						g := toPB(&recA.DRR)
						r = &pb.SessionRequest{Request: &pb.SessionRequest_Decrypt{Decrypt: &pb.Decrypt{DataRowRecord: &pb.DataRowRecord{Data: g.Data, Key: &pb.EnvelopeKeyRecord{Created: g.Key.Created, Key: g.Key.Key}}}}}
					case 3:
						g := toPB(&recA.DRR)
						r = &pb.SessionRequest{Request: &pb.SessionRequest_Decrypt{Decrypt: &pb.Decrypt{DataRowRecord: &pb.DataRowRecord{Data: g.Data, Key: &pb.EnvelopeKeyRecord{Created: g.Key.Created, Key: g.Key.Key, ParentKeyMeta: &pb.KeyMeta{}}}}}}
					default:
						g := toPB(&recA.DRR)
						r = &pb.SessionRequest{Request: &pb.SessionRequest_Decrypt{Decrypt: &pb.Decrypt{DataRowRecord: &pb.DataRowRecord{Data: g.Data}}}}
					}
				case rqEmpty:
					r = &pb.SessionRequest{}
				}
				ms.reqs = append(ms.reqs, r)
			}
			var err error
			panicked := ""
			func() {
				defer func() {
					if r := recover(); r != nil {
						panicked = fmt.Sprintf("%v @ %s", r, panicWhere(string(debug.Stack())))
					}
				}()
				err = svc.Session(ms)
			}()
			names := make([]string, len(pl.seq))
			for i, k := range pl.seq {
				names[i] = rqNames[k]
			}
			if panicked != "" {
				w.Violate("panic", "panic@"+panicked, "the stream handler panicked (this takes the whole sidecar down) on the sequence %v + %s: %s", names, endOf(pl), panicked)
				return
			}
			count(st.Oracle, "stream-protocol")
			// protocol model
			received := ms.pos
			if len(ms.sent) != received {
				w.Violate("response-count", "response-count", "sequence %v: %d requests were received but %d responses were sent", names, received, len(ms.sent))
				return
			}
			if pl.recvErrAt < 0 && pl.sendErrAt < 0 && err != nil {
				w.Violate("stream-error", "stream-error", "sequence %v ended by a clean end-of-stream but Session returned %v", names, err)
				return
			}
			state := 0 // 0 = no session, 1 = session established, 2 = get-session was rejected
			for i := 0; i < len(ms.sent); i++ {
				resp := ms.sent[i]
				k := pl.seq[i]
				if i > 0 || k != rqGetOK {
					if state != 0 || k >= rqEncrypt {
						reached = true
					}
				}
				if resp == nil {
					w.Violate("nil-response", "nil-response/"+rqNames[k], "request #%d (%s) of sequence %v was answered with a nil response (nothing can be sent for it)", i, rqNames[k], names)
					return
				}
				isErr := resp.GetErrorResponse() != nil
				switch k {
				case rqGetOK:
					switch state {
					case 0:
						if isErr {
							w.Violate("get-session-refused", "get-session-refused", "first get-session(a) of sequence %v was answered with an error: %s", names, resp.GetErrorResponse().GetMessage())
							return
						}
						state = 1
					case 1:
						if !isErr {
							w.Violate("second-get-session-accepted", "second-get-session-accepted", "a second get-session in sequence %v was not answered with an error", names)
							return
						}
					case 2:
						if !isErr {
							state = 1
						}
					}
				case rqGetEmpty:
					if !isErr {
						w.Violate("empty-partition-accepted", "empty-partition-accepted", "get-session with an empty partition id was accepted in sequence %v", names)
						return
					}
					if state == 0 {
						state = 2
					}
				case rqEmpty:
					if !isErr {
						w.Violate("empty-request-not-error", "empty-request-not-error", "an empty request in sequence %v was not answered with an error response", names)
						return
					}
				case rqEncrypt:
					if state != 1 {
						if !isErr {
							w.Violate("op-before-session", "op-before-session/encrypt", "encrypt without an established session was not answered with an error (sequence %v)", names)
							return
						}
						continue
					}
					er := resp.GetEncryptResponse()
					if er == nil || fromPB(er.GetDataRowRecord()) == nil {
						w.Violate("encrypt-response", "encrypt-response", "encrypt on an established session returned %v (sequence %v)", resp, names)
						return
					}
					out, rerr := roundtrip(myPart, fromPB(er.GetDataRowRecord()))
					if rerr != nil || !bytes.Equal(out, payloads[i]) {
						w.Violate("roundtrip", "roundtrip", "a record produced by the sidecar for partition %q does not decrypt under that partition to the original payload: %v", myPart, rerr)
						return
					}
				case rqDecGenuine:
					if state != 1 {
						if !isErr {
							w.Violate("op-before-session", "op-before-session/decrypt", "decrypt without an established session was not answered with an error (sequence %v)", names)
							return
						}
						continue
					}
					dr := resp.GetDecryptResponse()
					if dr == nil || !bytes.Equal(dr.GetData(), recA.Payload) {
						w.Violate("decrypt-response", "decrypt-response", "decrypt of a genuine record on an established session returned %v (sequence %v)", resp, names)
						return
					}
				case rqDecForeign, rqDecCorrupt, rqDecEmpty:
					if !isErr {
						w.Violate("bad-record-accepted", "bad-record-accepted/"+rqNames[k], "%s was not answered with an error response (sequence %v)", rqNames[k], names)
						return
					}
				}
			}
		}
		if prior {
			runStream(-1, plan{[]int{rqGetOK, rqEncrypt, rqDecGenuine}, -1, -1})
		}
		if nstreams == 1 || serial {
			for i := range plans {
				if len(w.Viols) == 0 {
					runStream(i, plans[i])
				}
			}
		} else {
			var tasks []*simrt.Task
			for i := range plans {
				i := i
				tasks = append(tasks, s.Go(fmt.Sprintf("stream%d", i), func() { runStream(i, plans[i]) }))
			}
			for _, tk := range tasks {
				s.Join(tk)
			}
		}
		w.Drain()
		// however a stream ended (end-of-stream, a transport error on Recv or Send, a cancelled client)
		// its handler has closed the session it opened: once the harness has closed its own sessions and
		// the factory, no intermediate key of the process is still allocated (system keys are left to C09)
		if !ownCtor && len(w.Viols) == 0 {
			var own []string
			for part := range seOf {
				own = append(own, part)
			}
			sortStrings(own)
			for _, part := range own {
				if seOf[part] != nil {
					w.CloseSess(seOf[part])
				}
			}
			w.CloseProc(p)
			w.Drain()
			count(st.Oracle, "sessions-closed-when-streams-ended")
			var ends []string
			for _, pl := range plans {
				ends = append(ends, endOf(pl))
			}
			idx := w.KeyPlain()
			for _, sec := range w.Ledger.LiveOf(p.ID) {
				if name := idx[sec.FP]; strings.HasPrefix(name, "_IK_") {
					w.Violate("session-left-open", "session-left-open-after-stream-end", "after every stream has ended and the factory is closed, intermediate key %s is still allocated: a stream's handler did not close its session (streams ended by: %v)", name, ends)
					break
				}
			}
		}
		names := make([]string, len(plans[0].seq))
		for i, k := range plans[0].seq {
			names[i] = rqNames[k]
		}
		st.Nontrivial = reached
		st.Class = fmt.Sprintf("%d%v%v|%v|%d/%d", nstreams, prior, serial, names, plans[0].recvErrAt, plans[0].sendErrAt)
		st.Sample = map[string]any{"streams": nstreams, "prior_stream": prior, "serial": serial, "first_sequence": names, "end": endOf(plans[0])}
	})
	return finish(s, w, st, true)
}

func endOf(pl struct {
	seq       []int
	recvErrAt int
	sendErrAt int
}) string {
	switch {
	case pl.recvErrAt >= 0:
		return fmt.Sprintf("Recv error at #%d", pl.recvErrAt)
	case pl.sendErrAt >= 0:
		return fmt.Sprintf("Send error at #%d", pl.sendErrAt)
	}
	return "end-of-stream"
}
