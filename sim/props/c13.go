package props

import (
	"context"
	"crypto/sha256"
	"database/sql"
	"encoding/hex"
	"errors"
	"fmt"
	"sort"
	"strings"
	"time"

	"github.com/anishathalye/porcupine"
	awsv1 "github.com/aws/aws-sdk-go/aws"
	sessv1 "github.com/aws/aws-sdk-go/aws/session"
	"github.com/godaddy/asherah/go/appencryption"
	"github.com/godaddy/asherah/go/appencryption/pkg/persistence"
	ddbv1 "github.com/godaddy/asherah/go/appencryption/plugins/aws-v1/persistence"
	ddbv2 "github.com/godaddy/asherah/go/appencryption/plugins/aws-v2/dynamodb/metastore"

	"verif/sim/fakes"
	"verif/sim/simrt"
	"verif/sim/world"
)

func init() {
	register(&Property{
		ID:    "C13",
		Level: "exploration",
		Rule: "one case = one concurrent history of Store/Load/LoadLatest issued by 2-4 simulated clients against one real metastore implementation (in-memory; SQL over a fake database/sql driver in the mysql '?', postgres '$n' or oracle ':n' placeholder dialect; DynamoDB SDK-v1 and SDK-v2 metastores over a semantic DynamoDB fake with a strongly consistent primary and a lagging replica, custom table name, region suffix on/off) over <=3 ids and <=4 creation stamps with generated record contents (binary keys, revoked flag, with/without parent meta), back-end throttling and lost acknowledgements injected; the recorded history (invoke/return stamped with the simulator's step counter) is checked for linearizability against an insert-only table model with porcupine; " +
			"non-trivial = the history contains a duplicate Store and a read that follows a completed Store; distinct = distinct (implementation, dialect/options, operation sequence) tuples",
		Run:         runC13,
		QuickSec:    20,
		ThoroughSec: 600,
		Assumptions: []string{
			"MySQL/Postgres/Oracle and DynamoDB are fakes written from their documentation (schema of docs/Metastore.md; GetItem/PutItem/Query subset with ConsistentRead, attribute_not_exists, ScanIndexForward, Limit, projection); a request outside that subset stops the run as harness trouble, it is never guessed at",
			"the record's ID field is not part of the stored document (it is the table key); all other fields must round-trip exactly",
			"porcupine verdict Unknown (timeout) is counted as inconclusive, never reported",
		},
	})
}

type msOp struct {
	Kind    string // store | load | latest
	ID      string
	Created int64
	Digest  string // store: digest of the record offered
}

type msOut struct {
	OK      bool   // store result
	Digest  string // load results ("" = nil)
	Created int64
	Err     bool // the call returned an error
	Fault   bool // an injected back-end failure happened inside the call (outcome uncertain)
}

func ekrDigest(e *appencryption.EnvelopeKeyRecord) string {
	if e == nil {
		return ""
	}
	h := sha256.New()
	fmt.Fprintf(h, "%d|%v|%x|", e.Created, e.Revoked, e.EncryptedKey)
	if e.ParentKeyMeta != nil {
		fmt.Fprintf(h, "%s|%d", e.ParentKeyMeta.ID, e.ParentKeyMeta.Created)
	} else {
		fmt.Fprint(h, "noparent")
	}
	return hex.EncodeToString(h.Sum(nil)[:8])
}

// table state for one id: "created=digest;created=digest" sorted by created
func stEncode(m map[int64]string) string {
	var cs []int64
	for c := range m {
		cs = append(cs, c)
	}
	sort.Slice(cs, func(i, j int) bool { return cs[i] < cs[j] })
	var sb strings.Builder
	for _, c := range cs {
		fmt.Fprintf(&sb, "%d=%s;", c, m[c])
	}
	return sb.String()
}

func stDecode(s string) map[int64]string {
	m := map[int64]string{}
	for _, p := range strings.Split(s, ";") {
		if p == "" {
			continue
		}
		var c int64
		var d string
		i := strings.Index(p, "=")
		fmt.Sscanf(p[:i], "%d", &c)
		d = p[i+1:]
		m[c] = d
	}
	return m
}

var msModel = porcupine.NondeterministicModel{
	Init: func() []interface{} { return []interface{}{""} },
	Step: func(state, input, output interface{}) []interface{} {
		st := stDecode(state.(string))
		in := input.(msOp)
		out := output.(msOut)
		switch in.Kind {
		case "store":
			_, present := st[in.Created]
			if out.Err && out.Fault {
				// outcome uncertain: the write may or may not have been applied; it never overwrites
				if present {
					return []interface{}{state}
				}
				st2 := stDecode(state.(string))
				st2[in.Created] = in.Digest
				return []interface{}{state, stEncode(st2)}
			}
			if out.OK {
				if present {
					return nil // reported success for a duplicate
				}
				st[in.Created] = in.Digest
				return []interface{}{stEncode(st)}
			}
			// reported false (with or without an error): legal only for a duplicate
			if present {
				return []interface{}{state}
			}
			return nil
		case "load":
			if out.Err {
				if out.Fault {
					return []interface{}{state}
				}
				return nil
			}
			if st[in.Created] == out.Digest {
				return []interface{}{state}
			}
			return nil
		case "latest":
			if out.Err {
				if out.Fault {
					return []interface{}{state}
				}
				return nil
			}
			var max int64 = -1 << 62
			for c := range st {
				if c > max {
					max = c
				}
			}
			if len(st) == 0 {
				if out.Digest == "" {
					return []interface{}{state}
				}
				return nil
			}
			if out.Digest == st[max] && out.Created == max {
				return []interface{}{state}
			}
			return nil
		}
		return nil
	},
	Equal: func(a, b interface{}) bool { return a.(string) == b.(string) },
	DescribeOperation: func(input, output interface{}) string {
		return fmt.Sprintf("%+v -> %+v", input, output)
	},
}

var c13Impls = []string{"memory", "sql-mysql", "sql-postgres", "sql-oracle", "dynamodb-v1", "dynamodb-v2"}

func runC13(t *simrt.Tape, o Opts) Outcome {
	impl := c13Impls[t.Choose(len(c13Impls), "impl")]
	cfg := schedCfg(t, o, true)
	var st Stats
	st.Oracle = map[string]int{}
	var viols []world.Violation
	violate := func(sig, format string, a ...any) {
		if len(viols) == 0 {
			viols = append(viols, world.Violation{Prop: "C13", Rule: strings.SplitN(sig, "/", 2)[0], Signature: "C13/" + sig, Msg: fmt.Sprintf(format, a...)})
		}
	}
	var desc string
	var hist []string
	faults := map[string]int{}
	var infra *simrt.Failure
	nontrivial := false
	s := simrt.Run(t, cfg, func(s *simrt.Sim) {
		defer func() {
			if r := recover(); r != nil {
				if he, ok := r.(fakes.HarnessError); ok {
					infra = &simrt.Failure{Kind: simrt.FailHarness, Msg: he.Error()}
					return
				}
				panic(r)
			}
		}()
		faulty := t.Choose(2, "faulty") == 1
		var ms appencryption.Metastore
		var lastFault func() string
		clearFault := func() {}
		var closeFn func()
		opts := ""
		switch {
		case impl == "memory":
			ms = persistence.NewMemoryMetastore()
			lastFault = func() string { return "" }
		case strings.HasPrefix(impl, "sql-"):
			dialect := strings.TrimPrefix(impl, "sql-")
			db := fakes.NewSQLDB(s, dialect)
			db.Faults = faulty
			if faulty {
				// a server-side error, a cut connection, or a timeout on the wire
				db.ErrKind = t.Choose(3, "sql.errkind")
			}
			var h *sql.DB = db.Open()
			closeFn = func() { h.Close() }
			switch dialect {
			case "mysql":
				if t.Choose(2, "sql.explicit") == 1 {
					ms = persistence.NewSQLMetastore(h, persistence.WithSQLMetastoreDBType(persistence.MySQL))
				} else {
					ms = persistence.NewSQLMetastore(h)
				}
			case "postgres":
				ms = persistence.NewSQLMetastore(h, persistence.WithSQLMetastoreDBType(persistence.Postgres))
			case "oracle":
				ms = persistence.NewSQLMetastore(h, persistence.WithSQLMetastoreDBType(persistence.Oracle))
			}
			lastFault = func() string { return db.FaultOf[s.Cur().ID] }
			clearFault = func() { delete(db.FaultOf, s.Cur().ID) }
			defer func() {
				for k, v := range db.Stats {
					faults[k] += v
				}
			}()
		default:
			table := []string{"EncryptionKey", "CustomKeys"}[t.Choose(2, "ddb.table")]
			suffix := t.Choose(2, "ddb.suffix") == 1
			d := fakes.NewDDB(s, table)
			d.Lag = true
			d.Faults = faulty
			// injected failures surface as typed service errors or as plain Go errors (a client-side
			// timeout): either way the operation failed and must be reported as failed
			fakes.PlainErrors = faulty && t.Choose(2, "ddb.plain-errors") == 1
			opts = fmt.Sprintf("table=%s suffix=%v plain-errors=%v", table, suffix, fakes.PlainErrors)
			lastFault = func() string { return d.FaultOf[s.Cur().ID] }
			clearFault = func() { delete(d.FaultOf, s.Cur().ID) }
			defer func() {
				for k, v := range d.Stats {
					faults[k] += v
				}
			}()
			if impl == "dynamodb-v1" {
				sess := sessv1.Must(sessv1.NewSession(&awsv1.Config{Region: awsv1.String("us-west-2")}))
				o := []ddbv1.DynamoDBMetastoreOption{ddbv1.WithClient(fakes.V1{D: d}), ddbv1.WithDynamoDBRegionSuffix(suffix)}
				if table != "EncryptionKey" {
					o = append(o, ddbv1.WithTableName(table))
				}
				m := ddbv1.NewDynamoDBMetastore(sess, o...)
				if suffix != (m.GetRegionSuffix() == "us-west-2") {
					violate("region-suffix", "v1 DynamoDB metastore: region suffix option %v but GetRegionSuffix()=%q", suffix, m.GetRegionSuffix())
				}
				ms = m
			} else {
				o := []ddbv2.Option{ddbv2.WithDynamoDBClient(fakes.V2{D: d, Region: "us-west-2"}), ddbv2.WithRegionSuffix(suffix)}
				if table != "EncryptionKey" {
					o = append(o, ddbv2.WithTableName(table))
				}
				m, err := ddbv2.NewDynamoDB(o...)
				if err != nil {
					violate("construct", "cannot construct the v2 metastore: %v", err)
					return
				}
				if suffix != (m.GetRegionSuffix() == "us-west-2") {
					violate("region-suffix", "v2 DynamoDB metastore: region suffix option %v but GetRegionSuffix()=%q", suffix, m.GetRegionSuffix())
				}
				ms = m
			}
		}
		desc = impl + " " + opts
		ids := []string{"_SK_svc_prod", "_IK_a_svc_prod", "_IK_b_svc_prod"}[:1+t.Choose(3, "nids")]
		stamps := []int64{1893456000, 1893456060, 1893459600, 1901232000}
		nclients := 2 + t.Choose(3, "nclients")
		opsPer := 2 + t.Choose(scale(o, 7, 9), "opsper")
		rnd := simrt.NewRand(uint64(t.Choose(1<<20, "seed")) + 3)
		var ops []porcupine.Operation
		var tasks []*simrt.Task
		dupStore, readAfterStore := false, false
		stored := map[string]bool{}
		for ci := 0; ci < nclients; ci++ {
			ci := ci
			type step struct {
				kind    int
				id      string
				created int64
				rec     *appencryption.EnvelopeKeyRecord
			}
			plan := make([]step, opsPer)
			for i := range plan {
				stp := step{kind: t.Choose(5, "op"), id: ids[t.Choose(len(ids), "id")], created: stamps[t.Choose(len(stamps), "created")]}
				key := make([]byte, 1+rnd.Intn(70))
				rnd.Fill(key)
				if rnd.Intn(4) == 0 {
					for k := range key {
						key[k] = byte(k * 37) // all byte values incl. 0x00 and 0xff
					}
				}
				stp.rec = &appencryption.EnvelopeKeyRecord{ID: stp.id, Created: stp.created, EncryptedKey: key, Revoked: rnd.Intn(4) == 0}
				if rnd.Intn(3) != 0 {
					stp.rec.ParentKeyMeta = &appencryption.KeyMeta{ID: "_SK_svc_prod", Created: stamps[rnd.Intn(len(stamps))]}
				}
				plan[i] = stp
			}
			tasks = append(tasks, s.Go(fmt.Sprintf("client%d", ci), func() {
				for _, stp := range plan {
					if s.Ending() || len(viols) > 0 || infra != nil {
						return
					}
					var in msOp
					var out msOut
					s.Point(simrt.KSeam, "client.invoke")
					clearFault()
					call := int64(s.Steps)
					func() {
						defer func() {
							if r := recover(); r != nil {
								if he, ok := r.(fakes.HarnessError); ok {
									infra = &simrt.Failure{Kind: simrt.FailHarness, Msg: he.Error()}
									return
								}
								violate("panic", "%s: metastore call panicked: %v", desc, r)
							}
						}()
						switch {
						case stp.kind <= 1:
							in = msOp{Kind: "store", ID: stp.id, Created: stp.created, Digest: ekrDigest(stp.rec)}
							want := ekrDigest(stp.rec)
							ok, err := ms.Store(context.Background(), stp.id, stp.created, stp.rec)
							out = msOut{OK: ok, Err: err != nil, Fault: lastFault() != ""}
							if ekrDigest(stp.rec) != want {
								violate("store-modified-argument", "%s: Store modified the caller's record", desc)
							}
							if err != nil && ok {
								violate("store-true-with-error", "%s: Store returned true together with an error", desc)
							}
							if stored[fmt.Sprintf("%s@%d", stp.id, stp.created)] {
								dupStore = true
							}
							if ok {
								stored[fmt.Sprintf("%s@%d", stp.id, stp.created)] = true
							}
						case stp.kind <= 3:
							in = msOp{Kind: "load", ID: stp.id, Created: stp.created}
							rec, err := ms.Load(context.Background(), stp.id, stp.created)
							out = msOut{Digest: ekrDigest(rec), Err: err != nil, Fault: lastFault() != ""}
							if rec != nil {
								out.Created = rec.Created
								if rec.ID != "" && rec.ID != stp.id {
									violate("load-wrong-id", "%s: Load(%s) returned a record with ID %q", desc, stp.id, rec.ID)
								}
							}
							if stored[fmt.Sprintf("%s@%d", stp.id, stp.created)] {
								readAfterStore = true
							}
						default:
							in = msOp{Kind: "latest", ID: stp.id}
							rec, err := ms.LoadLatest(context.Background(), stp.id)
							out = msOut{Digest: ekrDigest(rec), Err: err != nil, Fault: lastFault() != ""}
							if rec != nil {
								out.Created = rec.Created
							}
						}
					}()
					s.Point(simrt.KSeam, "client.return")
					ret := int64(s.Steps)
					ops = append(ops, porcupine.Operation{ClientId: ci, Input: in, Call: call, Output: out, Return: ret})
					if len(hist) < 40 {
						hist = append(hist, fmt.Sprintf("c%d[%d-%d] %s %s@%d -> %+v", ci, call, ret, in.Kind, in.ID, in.Created, out))
					}
				}
			}))
		}
		for _, tk := range tasks {
			s.Join(tk)
		}
		if closeFn != nil {
			closeFn()
		}
		if len(viols) > 0 || infra != nil {
			return
		}
		// linearizability per id
		byID := map[string][]porcupine.Operation{}
		for _, op := range ops {
			id := op.Input.(msOp).ID
			byID[id] = append(byID[id], op)
		}
		model := msModel.ToModel()
		for _, id := range ids {
			count(st.Oracle, "porcupine-check")
			res := porcupine.CheckOperationsTimeout(model, byID[id], 20*time.Second)
			switch res {
			case porcupine.Illegal:
				var lines []string
				for _, op := range byID[id] {
					lines = append(lines, fmt.Sprintf("c%d[%d-%d] %+v -> %+v", op.ClientId, op.Call, op.Return, op.Input, op.Output))
				}
				violate("not-linearizable/"+impl, "%s: the history on %s is not a linearizable history of an insert-only, read-your-writes table:\n%s", desc, id, strings.Join(lines, "\n"))
			case porcupine.Unknown:
				count(st.Oracle, "porcupine-inconclusive")
			}
		}
		nontrivial = dupStore && readAfterStore
	})
	out := Outcome{Viols: viols}
	st.Nontrivial = nontrivial
	st.Class = fmt.Sprintf("%s|%x", desc, simrtHash(strings.Join(hist, ";")))
	st.Faults = faults
	st.Sample = map[string]any{"implementation": desc, "history": hist}
	fo := finish(s, nil, st, true)
	out.Stats, out.Infra, out.Log = fo.Stats, fo.Infra, fo.Log
	out.Stats.Faults = faults
	if infra != nil {
		out.Infra = infra
	}
	if f := s.Failure(); f != nil && len(out.Viols) == 0 && infra == nil {
		switch f.Kind {
		case simrt.FailDeadlock:
			out.Infra = nil
			out.Viols = append(out.Viols, world.Violation{Prop: "C13", Rule: "deadlock", Signature: "C13/deadlock/" + impl, Msg: f.Msg})
		case simrt.FailPanic:
			out.Infra = nil
			out.Viols = append(out.Viols, world.Violation{Prop: "C13", Rule: "panic", Signature: "C13/" + panicKind(f.Msg), Msg: f.Msg + "\n" + f.Stack})
		}
	}
	var _ = errors.New
	return out
}
