package props

import (
	"bytes"
	"errors"
	"fmt"
	smlog "github.com/godaddy/asherah/go/securememory/log"
	"io"
	"runtime/debug"
	"strings"
	"unsafe"

	"github.com/godaddy/asherah/go/securememory"
	"github.com/godaddy/asherah/go/securememory/memguard"
	"github.com/godaddy/asherah/go/securememory/protectedmemory"

	"verif/sim/fakes"
	"verif/sim/simrt"
	"verif/sim/world"
)

func init() {
	register(&Property{
		ID:    "C11",
		Level: "exploration",
		Rule: "one case = one program over real mmap'd secrets of one implementation (protectedmemory or memguard; sizes 1, 31, 32, 4095, 4096, 4097, 3 pages+5): either a sequential sequence of New/CreateRandom/WithBytes/WithBytesFunc (nested)/NewReader.Read/IsClosed/Close/access-after-close over up to 3 secrets, or a schedule-explored concurrent run of up to 4 readers and up to 3 closers on one secret; the interposed memcall keeps a shadow page table that is cross-checked against /proc/self/maps (permissions) and /proc/self/smaps (VmFlags lo, dd) of the address seen inside the callback; " +
			"non-trivial = at least one reader callback ran and one Close completed; distinct = distinct (implementation, size, program / switch trace) tuples",
		Run:         runC11,
		QuickSec:    20,
		ThoroughSec: 600,
		Assumptions: []string{
			"core-dump exclusion is observed as the 'dd' VM flag, locking as the 'lo' VM flag",
			"memguard allocates, wipes and frees inside the awnumar library: for it only page permissions, flags, reader exclusion and unmapping are observable (not the wipe)",
			"finalizer-driven paths are not explored (GC is off during a run)",
		},
	})
	register(&Property{
		ID:    "C12",
		Level: "fault_enumeration",
		Rule: "one case = (implementation) x (operation in {New, CreateRandom, WithBytes, WithBytesFunc, Close}) x (index of the memory-management call inside the operation, or the random source) x (failure reported before performing the call | after performing it, for lock/unlock/protect); every single-fault case is enumerated, pairs of faults and sizes are sampled; " +
			"non-trivial = the fault fired; distinct = distinct (implementation, operation, faulted primitive and index, mode) tuples",
		Run:         runC12,
		Sweep:       sweepC12,
		Recycle:     6000,
		QuickSec:    12,
		ThoroughSec: 300,
		Assumptions: []string{
			"memguard: only Protect and the clean-up path (Unlock/Free after a failed Protect) pass through the asherah memcall seam; allocation/locking inside the awnumar library cannot be failed from here",
			"'zeroed before unlock/release' is required for regions that held caller-supplied bytes (New); regions whose own unlock/free was the injected failure are exempt from the 'not left mapped/locked' clause",
		},
	})
}

var secretSizes = []int{32, 1, 31, 4095, 4096, 4097, 3*4096 + 5}

type secretImpl struct {
	name    string
	factory securememory.SecretFactory
	spy     *fakes.MemSpy
}

func mkImpl(s *simrt.Sim, which int) secretImpl {
	spy := fakes.NewMemSpy(s)
	if which == 0 {
		return secretImpl{"protectedmemory", protectedmemory.NewSecretFactoryWithMemcall(spy), spy}
	}
	return secretImpl{"memguard", memguard.NewSecretFactoryWithMemcall(spy), spy}
}

func addrOfBytes(b []byte) uintptr {
	if len(b) == 0 {
		return 0
	}
	return uintptr(unsafe.Pointer(&b[0]))
}

func (im secretImpl) regionFor(addr uintptr) *fakes.Region {
	for i := len(im.spy.Regions) - 1; i >= 0; i-- {
		r := im.spy.Regions[i]
		if addr >= r.Addr && addr < r.Addr+uintptr(r.Len) {
			return r
		}
	}
	return nil
}

type trackedSecret struct {
	sec    securememory.Secret
	want   []byte // nil until first read for random secrets
	addr   uintptr
	closed bool
	inside int
	n      int
	size   int
	rd     io.Reader // a reader the caller keeps across other operations, part-way through the secret
	rdPos  int
}

// quietLogger drops every debug line unrendered (the secure-memory log has no way to uninstall a logger).
type quietLogger struct{}

func (quietLogger) Debugf(string, ...interface{}) {}

func runC11(t *simrt.Tape, o Opts) Outcome {
	which := t.Choose(2, "impl")
	concurrent := t.Choose(2, "concurrent") == 1
	// one run in 24: a reader that outlives the caller's handle on the secret, under the real collector
	readerOnly := !concurrent && t.Choose(12, "reader-outlives-handle") == 1
	// the application may have wired up the secure-memory debug log: its lines are rendered
	if t.Choose(3, "debug-log") == 1 {
		smlog.SetLogger(renderLogger{})
		defer smlog.SetLogger(quietLogger{})
	}
	cfg := schedCfg(t, o, concurrent)
	var st Stats
	st.Oracle = map[string]int{}
	st.Faults = map[string]int{}
	var viols []world.Violation
	violate := func(sig, format string, a ...any) {
		if len(viols) == 0 {
			viols = append(viols, world.Violation{Prop: "C11", Rule: strings.SplitN(sig, "/", 2)[0], Signature: "C11/" + sig, Msg: fmt.Sprintf(format, a...)})
		}
	}
	var prog []string
	callbacks, closes := 0, 0
	implName := ""
	s := simrt.Run(t, cfg, func(s *simrt.Sim) {
		debug.SetPanicOnFault(true)
		s.TrackReachability = readerOnly
		im := mkImpl(s, which)
		implName = im.name
		rnd := simrt.NewRand(uint64(t.Choose(1<<20, "seed")) + 11)
		procEvery := 1 + t.Choose(3, "proc.every")
		checks := 0
		// inspect runs inside a reader callback
		inspect := func(ts *trackedSecret, b []byte, where string) {
			callbacks++
			count(st.Oracle, "callback-state")
			if ts.want == nil {
				ts.want = append([]byte(nil), b...)
			} else if !bytes.Equal(b, ts.want) {
				violate("wrong-bytes/"+im.name, "%s: reader of secret %d saw bytes that differ from the original (%s) after %v", im.name, ts.n, where, prog)
				return
			}
			a := addrOfBytes(b)
			ts.addr = a
			if r := im.regionFor(a); r != nil && im.name == "protectedmemory" {
				if r.Prot != "r" {
					violate("not-read-only-in-use/"+im.name, "%s: inside a reader callback the pages are %q in the shadow table, expected read-only; after %v", im.name, r.Prot, prog)
					return
				}
				if !r.Locked {
					violate("not-locked/"+im.name, "%s: pages of a live secret are not locked; after %v", im.name, prog)
					return
				}
			}
			checks++
			if checks%procEvery == 0 {
				count(st.Oracle, "proc-maps-in-use")
				pm := fakes.ProcPerms(a)
				if !pm.Found || pm.Perms != "r--p" {
					violate("not-read-only-in-use/"+im.name, "%s: /proc/self/maps shows %q for the secret's pages while a reader callback runs (expected r--p); after %v", im.name, pm.Perms, prog)
				}
			}
		}
		idleCheck := func(ts *trackedSecret, where string) {
			if ts.closed || ts.addr == 0 || ts.inside > 0 {
				return
			}
			count(st.Oracle, "proc-maps-idle")
			pm := fakes.ProcPerms(ts.addr)
			if !pm.Found || pm.Perms != "---p" {
				violate("accessible-when-idle/"+im.name, "%s: with no reader inside, /proc/self/maps shows %q for the secret's pages (expected ---p) %s; after %v", im.name, pm.Perms, where, prog)
			}
		}
		flagsCheck := func(ts *trackedSecret) {
			if ts.addr == 0 || ts.closed {
				return
			}
			count(st.Oracle, "proc-smaps-flags")
			pm := fakes.ProcFlags(ts.addr)
			if !pm.Found || !strings.Contains(pm.Flags, " lo ") || !strings.Contains(pm.Flags, " dd ") {
				violate("not-locked-or-dumpable/"+im.name, "%s: VmFlags of the secret's pages are %q (need lo = mlock'd and dd = excluded from core dumps); after %v", im.name, pm.Flags, prog)
			}
		}
		afterClose := func(ts *trackedSecret) {
			closes++
			count(st.Oracle, "after-close")
			if ts.addr != 0 {
				// (a mapping sized like the secret: the runtime's own PROT_NONE reservations may come to
				// cover a released address)
				pm := fakes.ProcPerms(ts.addr)
				if pm.SizedLike(ts.addr, ts.size) && (pm.Perms == "---p" || pm.Perms == "r--p") {
					violate("mapped-after-close/"+im.name, "%s: after Close the secret's pages are still mapped (%s); after %v", im.name, pm.Perms, prog)
					return
				}
				if r := im.regionFor(ts.addr); r != nil && im.name == "protectedmemory" {
					if r.Mapped || r.Locked {
						violate("mapped-after-close/"+im.name, "%s: after Close the region is mapped=%v locked=%v; after %v", im.name, r.Mapped, r.Locked, prog)
						return
					}
					if r.NonZeroAtUnlock {
						violate("not-wiped-before-unlock/"+im.name, "%s: Close unlocked the pages while they still held secret bytes; after %v", im.name, prog)
						return
					}
				}
			}
			if !ts.sec.IsClosed() {
				violate("isclosed-false/"+im.name, "%s: IsClosed() is false after Close returned; after %v", im.name, prog)
				return
			}
			err := ts.sec.WithBytes(func([]byte) error { return nil })
			if err == nil {
				violate("access-after-close-ok/"+im.name, "%s: WithBytes succeeded after Close; after %v", im.name, prog)
			}
		}
		guard := func(what string, fn func()) {
			defer func() {
				if r := recover(); r != nil {
					violate("fault-or-panic/"+im.name, "%s: %s panicked / faulted: %v @ %s; after %v", im.name, what, r, panicWhere(string(debug.Stack())), prog)
				}
			}()
			fn()
		}
		newSecret := func(n int) *trackedSecret {
			size := secretSizes[t.Choose(len(secretSizes), "size")]
			ts := &trackedSecret{n: n, size: size}
			var err error
			if t.Choose(2, "random") == 1 {
				prog = append(prog, fmt.Sprintf("s%d=CreateRandom(%d)", n, size))
				ts.sec, err = im.factory.CreateRandom(size)
			} else {
				src := make([]byte, size)
				rnd.Fill(src)
				ts.want = append([]byte(nil), src...)
				prog = append(prog, fmt.Sprintf("s%d=New(%dB)", n, size))
				ts.sec, err = im.factory.New(src)
			}
			if err != nil {
				violate("create-failed/"+im.name, "%s: creation failed without any injected fault: %v", im.name, err)
				return nil
			}
			return ts
		}
		inuse0 := securememory.InUseCounter.Count()
		if readerOnly {
			// The caller keeps only the io.Reader it got from the secret. Whatever the collector does
			// meanwhile, the reader still delivers the original bytes: the secret must stay reachable
			// through it (its finalizer closes it otherwise).
			size := secretSizes[t.Choose(len(secretSizes), "size")]
			src := make([]byte, size)
			rnd.Fill(src)
			want := append([]byte(nil), src...)
			prog = append(prog, fmt.Sprintf("New(%dB); r := NewReader(); drop the secret; GC; read r", size))
			var r io.Reader
			guard("create", func() {
				sec, err := im.factory.New(src)
				if err != nil {
					violate("create-failed/"+im.name, "%s: creation failed without any injected fault: %v", im.name, err)
					return
				}
				r = sec.NewReader()
			})
			if r == nil {
				return
			}
			finalized := s.CollectAndFinalize()
			s.Idle()
			count(st.Oracle, "reader-outlives-handle")
			guard("read", func() {
				got, err := io.ReadAll(r)
				callbacks++
				if err != nil || !bytes.Equal(got, want) {
					violate("reader-lost-its-secret/"+im.name, "%s: the caller dropped the secret and kept its reader; after a garbage collection (%d finalizer(s) ran) reading it gives err=%v, %d of %d bytes intact", im.name, finalized, err, len(got), len(want))
				}
			})
			// now the reader goes too: the collector finds the secret and its finalizer releases it
			r = nil
			s.CollectAndFinalize()
			s.Idle()
			closes++
			return
		}
		if !concurrent {
			var secrets []*trackedSecret
			nops := 3 + t.Choose(20, "nops")
			for i := 0; i < nops && len(viols) == 0; i++ {
				if len(secrets) == 0 || (len(secrets) < 3 && t.Choose(6, "new?") == 0) {
					guard("create", func() {
						if ts := newSecret(len(secrets)); ts != nil {
							secrets = append(secrets, ts)
						}
					})
					continue
				}
				ts := secrets[t.Choose(len(secrets), "pick")]
				switch k := t.Choose(7, "op"); k {
				case 0, 1:
					depth := 1 + t.Choose(2, "nest")
					leave := cbLeave(t)
					prog = append(prog, fmt.Sprintf("s%d.WithBytes(depth %d, callback %s)", ts.n, depth, cbLeaveNames[leave]))
					guard("WithBytes", func() {
						var err error
						unwound := callbackUnwinds(func() {
							err = ts.sec.WithBytes(func(b []byte) error {
								ts.inside++
								defer func() { ts.inside-- }()
								inspect(ts, b, "WithBytes")
								if depth > 1 {
									if e := ts.sec.WithBytes(func(b2 []byte) error { inspect(ts, b2, "nested WithBytes"); return nil }); e != nil {
										return e
									}
								}
								return leaveCallbackCounted(leave, st.Faults)
							})
						})
						if unwound {
							return // the callback's own panic passed through to its caller, as it must
						}
						if (err != nil) != (ts.closed || leave == cbError) {
							violate("withbytes-result/"+im.name, "%s: WithBytes on a %s secret (callback %s) returned %v; after %v", im.name, map[bool]string{true: "closed", false: "live"}[ts.closed], cbLeaveNames[leave], err, prog)
						}
					})
					idleCheck(ts, "after WithBytes returned")
					if t.Choose(4, "flags") == 0 {
						flagsCheck(ts)
					}
				case 2:
					leave := cbLeave(t)
					prog = append(prog, fmt.Sprintf("s%d.WithBytesFunc(callback %s)", ts.n, cbLeaveNames[leave]))
					guard("WithBytesFunc", func() {
						var out []byte
						var err error
						unwound := callbackUnwinds(func() {
							out, err = ts.sec.WithBytesFunc(func(b []byte) ([]byte, error) {
								ts.inside++
								defer func() { ts.inside-- }()
								inspect(ts, b, "WithBytesFunc")
								return append([]byte(nil), b...), leaveCallbackCounted(leave, st.Faults)
							})
						})
						if unwound {
							return
						}
						if (err != nil) != (ts.closed || leave == cbError) {
							violate("withbytes-result/"+im.name, "%s: WithBytesFunc on a %s secret (callback %s) returned %v", im.name, map[bool]string{true: "closed", false: "live"}[ts.closed], cbLeaveNames[leave], err)
						} else if err == nil && ts.want != nil && !bytes.Equal(out, ts.want) {
							violate("wrong-bytes/"+im.name, "%s: WithBytesFunc returned other bytes", im.name)
						}
					})
					idleCheck(ts, "after WithBytesFunc returned")
				case 3:
					if kind := t.Choose(3, "reader.kind"); kind != 0 {
						// a reader the caller keeps: it reads the secret in pieces, other operations (a Close
						// among them) come in between; every piece opens the pages anew, so after Close the
						// next piece is an error and delivers nothing
						if ts.rd == nil {
							ts.rd, ts.rdPos = ts.sec.NewReader(), 0
						}
						buf := make([]byte, 1+ts.size/3)
						prog = append(prog, fmt.Sprintf("s%d.Reader.Read(%d bytes, at offset %d)", ts.n, len(buf), ts.rdPos))
						guard("Reader", func() {
							n, err := ts.rd.Read(buf)
							if ts.closed {
								if err == nil || err == io.EOF || n > 0 {
									violate("reader-after-close/"+im.name, "%s: a reader obtained before Close delivered %d bytes (err=%v) from offset %d after the secret was closed; after %v", im.name, n, err, ts.rdPos, prog)
								}
								return
							}
							if err != nil && err != io.EOF {
								violate("reader-failed/"+im.name, "%s: reader failed on a live secret: %v", im.name, err)
								return
							}
							if ts.want != nil && !bytes.Equal(buf[:n], ts.want[ts.rdPos:min(ts.rdPos+n, len(ts.want))]) {
								violate("wrong-bytes/"+im.name, "%s: a piecewise reader returned other bytes at offset %d", im.name, ts.rdPos)
								return
							}
							ts.rdPos += n
							if (err == io.EOF) != (ts.rdPos >= ts.size) && n > 0 {
								violate("reader-eof/"+im.name, "%s: a piecewise reader at offset %d of %d returned err=%v", im.name, ts.rdPos, ts.size, err)
							}
							if err == io.EOF {
								ts.rd = nil
							}
						})
						idleCheck(ts, "after a piecewise read")
						continue
					}
					prog = append(prog, fmt.Sprintf("s%d.Reader.ReadAll", ts.n))
					guard("Reader", func() {
						got, err := io.ReadAll(ts.sec.NewReader())
						if ts.closed {
							if err == nil {
								violate("reader-after-close/"+im.name, "%s: reading a closed secret succeeded", im.name)
							}
							return
						}
						if err != nil {
							violate("reader-failed/"+im.name, "%s: reader failed on a live secret: %v", im.name, err)
						} else if ts.want != nil && !bytes.Equal(got, ts.want) {
							violate("wrong-bytes/"+im.name, "%s: reader returned %d bytes that differ from the original %d", im.name, len(got), len(ts.want))
						}
					})
					idleCheck(ts, "after reading")
				case 4:
					prog = append(prog, fmt.Sprintf("s%d.IsClosed", ts.n))
					if ts.sec.IsClosed() != ts.closed {
						violate("isclosed/"+im.name, "%s: IsClosed()=%v, expected %v; after %v", im.name, !ts.closed, ts.closed, prog)
					}
					idleCheck(ts, "when idle")
				default:
					prog = append(prog, fmt.Sprintf("s%d.Close", ts.n))
					guard("Close", func() {
						err := ts.sec.Close()
						if err != nil {
							violate("close-failed/"+im.name, "%s: Close failed without any injected fault: %v", im.name, err)
							return
						}
						if ts.closed {
							return // a repeated Close is a no-op
						}
						ts.closed = true
						afterClose(ts)
					})
				}
			}
			for _, ts := range secrets {
				if !ts.closed && len(viols) == 0 {
					guard("Close", func() {
						ts.sec.Close()
						ts.closed = true
						afterClose(ts)
					})
				}
			}
		} else {
			var ts *trackedSecret
			guard("create", func() { ts = newSecret(0) })
			if ts == nil {
				return
			}
			nr := 1 + t.Choose(4, "readers")
			nc := 1 + t.Choose(3, "closers")
			reads := 1 + t.Choose(3, "reads")
			prog = append(prog, fmt.Sprintf("%d readers x %d reads || %d closers", nr, reads, nc))
			closeReturned := false
			var tasks []*simrt.Task
			var closers []*simrt.Task
			// closeParked: a Close has marked the secret as closing and waits for the readers inside
			closeParked := func() bool {
				for _, c := range closers {
					if c != nil && c.BlockedAt() == "Cond.Wait" {
						return true
					}
				}
				return false
			}
			for i := 0; i < nr; i++ {
				nest := t.Choose(2, "r.nest") == 1
				leave := cbLeave(t)
				tasks = append(tasks, s.Go("reader", func() {
					debug.SetPanicOnFault(true)
					for k := 0; k < reads; k++ {
						guard("concurrent WithBytes", func() {
							var err error
							lateArrival := closeParked()
							callbackUnwinds(func() {
								err = ts.sec.WithBytes(func(b []byte) error {
									ts.inside++
									defer func() { ts.inside-- }()
									count(st.Oracle, "no-admission-behind-a-waiting-close")
									if lateArrival {
										violate("admitted-behind-waiting-close/"+im.name, "%s: an access that began while a Close was already waiting for the readers inside was admitted instead of refused", im.name)
									}
									if closeReturned {
										violate("reader-after-close-returned/"+im.name, "%s: a reader callback started although a Close had already returned", im.name)
									}
									inspect(ts, b, "concurrent reader")
									s.Point(simrt.KSeam, "reader.inside") // let closers and other readers run while we are inside
									if closeReturned {
										violate("closed-under-reader/"+im.name, "%s: Close returned while a reader callback was still running", im.name)
									}
									if nest {
										_, e := ts.sec.WithBytesFunc(func(b2 []byte) ([]byte, error) {
											inspect(ts, b2, "nested concurrent reader")
											return nil, nil
										})
										_ = e // legitimately an error once a Close has begun
										return leaveCallbackCounted(leave, st.Faults)
									}
									inspect(ts, b, "concurrent reader (2nd look)")
									return leaveCallbackCounted(leave, st.Faults)
								})
							})
							_ = err // an error is legitimate once a Close has begun
						})
					}
				}))
			}
			for i := 0; i < nc; i++ {
				closers = append(closers, nil)
				ci := len(closers) - 1
				closers[ci] = s.Go("closer", func() {
					debug.SetPanicOnFault(true)
					guard("concurrent Close", func() {
						if err := ts.sec.Close(); err != nil {
							violate("close-failed/"+im.name, "%s: concurrent Close failed: %v", im.name, err)
							return
						}
						if ts.inside > 0 {
							violate("closed-under-reader/"+im.name, "%s: Close returned while %d reader callback(s) were inside", im.name, ts.inside)
						}
						closeReturned = true
					})
				})
				tasks = append(tasks, closers[ci])
			}
			for _, tk := range tasks {
				s.Join(tk)
			}
			if len(viols) == 0 {
				ts.closed = true
				guard("after close", func() { afterClose(ts) })
			}
		}
		if len(viols) == 0 {
			count(st.Oracle, "inuse-balanced")
			if d := securememory.InUseCounter.Count() - inuse0; d != 0 {
				violate("inuse-counter/"+im.name, "%s: secret.inuse counter changed by %d over a run in which every secret was closed; after %v", im.name, d, prog)
			}
		}
	})
	out := Outcome{Viols: viols}
	st.Nontrivial = callbacks > 0 && closes > 0
	st.Class = fmt.Sprintf("%s|%v|%x", implName, concurrent, simrtHash(strings.Join(prog, ";")))
	st.Sample = map[string]any{"implementation": implName, "program": first(prog, 30), "concurrent": concurrent}
	st.Ops = len(prog)
	fo := finish(s, nil, st, true)
	out.Stats, out.Infra, out.Log = fo.Stats, fo.Infra, fo.Log
	if f := s.Failure(); f != nil && len(out.Viols) == 0 {
		switch f.Kind {
		case simrt.FailDeadlock:
			out.Infra = nil
			out.Viols = append(out.Viols, world.Violation{Prop: "C11", Rule: "deadlock", Signature: "C11/deadlock/" + implName, Msg: fmt.Sprintf("%s: readers and closers are all blocked: %s; program %v", implName, f.Msg, prog)})
		case simrt.FailPanic:
			out.Infra = nil
			out.Viols = append(out.Viols, world.Violation{Prop: "C11", Rule: "panic", Signature: "C11/" + panicKind(f.Msg) + "/" + implName, Msg: f.Msg + "\n" + f.Stack})
		}
	}
	return out
}

// ---------------------------------------------------------------------------------------------
// C12

var c12Ops = []string{"New", "CreateRandom", "WithBytes", "WithBytesFunc", "Close", "Reader"}

func sweepC12(tier string) [][]uint32 {
	var out [][]uint32
	for impl := 0; impl < 2; impl++ {
		for op := range c12Ops {
			for k := 0; k < 8; k++ {
				for after := 0; after < 2; after++ {
					out = append(out, []uint32{1, uint32(impl), uint32(op), uint32(k), uint32(after), 0})
				}
			}
			if op == 1 {
				out = append(out, []uint32{1, uint32(impl), uint32(op), 0, 0, 1}) // random source failure
			}
		}
	}
	return out
}

var errRandInjected = errors.New("verif: injected random source failure")

func runC12(t *simrt.Tape, o Opts) Outcome {
	swept := t.Choose(2, "mode.sweep") == 1
	which := t.Choose(2, "impl")
	op := t.Choose(len(c12Ops), "op")
	k := t.Choose(8, "call")
	after := t.Choose(2, "after") == 1
	randFail := t.Choose(2, "randfail") == 1
	shortRead := 0 // > 0: the random source delivers only that many bytes of one read before it fails
	cfg := schedCfg(t, o, false)
	var st Stats
	st.Oracle = map[string]int{}
	var viols []world.Violation
	violate := func(sig, format string, a ...any) {
		if len(viols) == 0 {
			viols = append(viols, world.Violation{Prop: "C12", Rule: strings.SplitN(sig, "/", 2)[0], Signature: "C12/" + sig, Msg: fmt.Sprintf(format, a...)})
		}
	}
	fired := ""
	implName := ""
	s := simrt.Run(t, cfg, func(s *simrt.Sim) {
		debug.SetPanicOnFault(true)
		im := mkImpl(s, which)
		implName = im.name
		size := 32
		k2 := -1
		if !swept {
			size = secretSizes[t.Choose(len(secretSizes), "size")]
			if t.Choose(2, "pair") == 1 {
				k2 = t.Choose(8, "call2")
			}
			if randFail && t.Choose(2, "rand.short") == 1 {
				shortRead = 1 + t.Choose(7, "rand.short.n")
			}
		}
		rnd := simrt.NewRand(uint64(t.Choose(1<<20, "seed")) + 13)
		src := make([]byte, size)
		rnd.Fill(src)
		want := append([]byte(nil), src...)
		inuse0 := securememory.InUseCounter.Count()
		desc := func() string {
			return fmt.Sprintf("%s %s size %d fault %v (calls seen: %v)", im.name, c12Ops[op], size, im.spy.Fired, im.spy.Calls)
		}
		arm := func() {
			base := len(im.spy.Calls)
			im.spy.FailAt = base + k
			im.spy.After = after
			if k2 >= 0 {
				im.spy.FailAt2 = base + k2
			}
			if randFail && op == 1 {
				im.spy.FailAt = -1
				if shortRead > 0 {
					// the source delivers only the first bytes of one read and fails; the next read works
					failed := false
					s.SetRand(simrt.NewRand(7), func(n int) error {
						if failed || shortRead >= n {
							return nil
						}
						failed = true
						fired = "rand-short"
						return simrt.ShortRead{N: shortRead, Err: errRandInjected}
					})
				} else {
					s.SetRand(simrt.NewRand(7), func(int) error { fired = "rand"; return errRandInjected })
				}
			}
		}
		disarm := func() {
			im.spy.Off = true
			s.SetRand(simrt.NewRand(8), nil)
			if len(im.spy.Fired) > 0 {
				fired = strings.Join(im.spy.Fired, ",")
			}
		}
		firstRegion := len(im.spy.Regions)
		checkNoRemains := func(what string) {
			count(st.Oracle, "no-remains-after-failed-creation")
			for _, r := range im.spy.Regions[firstRegion:] {
				if r.FreeFailed || r.UnlockFailed {
					continue
				}
				mapped, locked := r.Mapped, r.Locked
				if im.name == "memguard" {
					// memguard releases inside its library: ask the kernel
					// ... about a mapping that can be the secret's (the runtime's own address-space
					// reservations are PROT_NONE too and may cover a released address)
					pm := fakes.ProcFlags(r.Addr)
					own := pm.SizedLike(r.Addr, r.Len)
					mapped = r.RealFreeErr != "" || (own && (pm.Perms == "---p" || pm.Perms == "r--p"))
					locked = own && strings.Contains(pm.Flags, " lo ") && (pm.Perms == "---p" || pm.Perms == "r--p")
				}
				if mapped || locked {
					violate("region-left-behind/"+im.name+"/"+c12Ops[op], "%s: after the failed %s a region is still mapped=%v locked=%v prot=%s", desc(), what, mapped, locked, r.Prot)
					return
				}
			}
		}
		checkWipedBeforeUnlock := func() {
			count(st.Oracle, "zeroed-before-unlock")
			for _, r := range im.spy.Regions[firstRegion:] {
				if r.NonZeroAtUnlock {
					violate("unlocked-before-wipe/"+im.name+"/"+c12Ops[op], "%s: pages holding the caller's secret bytes were unlocked before being zeroed", desc())
					return
				}
			}
		}
		functional := func(sec securememory.Secret, what string) bool {
			var got []byte
			err := sec.WithBytes(func(b []byte) error { got = append([]byte(nil), b...); return nil })
			if err != nil {
				violate("degraded-secret/"+im.name+"/"+c12Ops[op], "%s: %s: the secret cannot be read afterwards: %v", desc(), what, err)
				return false
			}
			if want != nil && !bytes.Equal(got, want) {
				violate("degraded-secret/"+im.name+"/"+c12Ops[op], "%s: %s: the secret reads back other bytes", desc(), what)
				return false
			}
			return true
		}
		defer func() {
			if r := recover(); r != nil {
				violate("fault-or-panic/"+im.name+"/"+c12Ops[op], "%s: panicked / faulted: %v @ %s", desc(), r, panicWhere(string(debug.Stack())))
			}
		}()
		switch c12Ops[op] {
		case "New", "CreateRandom":
			fin0 := s.Finalizers()
			arm()
			var sec securememory.Secret
			var err error
			if c12Ops[op] == "New" {
				sec, err = im.factory.New(src)
			} else {
				want = nil
				sec, err = im.factory.CreateRandom(size)
			}
			disarm()
			count(st.Oracle, "creation-under-fault")
			if fired == "" {
				if err != nil {
					violate("create-failed/"+im.name, "%s: creation failed although no fault fired: %v", desc(), err)
				} else {
					sec.Close()
				}
				return
			}
			if err == nil && fired == "rand-short" && size >= 16 {
				// the secret claims to be random: after an interrupted read of the source it is either
				// refused or random all the way through, not a few random bytes followed by zeroes
				count(st.Oracle, "random-secret-after-short-read")
				var got []byte
				sec.WithBytes(func(b []byte) error { got = append([]byte(nil), b...); return nil })
				zeroTail := len(got) == size
				for _, b := range got[shortRead:] {
					if b != 0 {
						zeroTail = false
					}
				}
				if zeroTail {
					violate("random-secret-mostly-zero/"+im.name, "%s: CreateRandom succeeded after the random source delivered only %d of %d bytes in one read; the secret's remaining %d bytes are all zero", desc(), shortRead, size, size-shortRead)
				}
			}
			if err == nil {
				// no error although a primitive failed: only acceptable if the secret is fully functional
				if functional(sec, "creation reported success although a memory primitive failed") {
					if cerr := sec.Close(); cerr != nil {
						violate("degraded-secret/"+im.name+"/"+c12Ops[op], "%s: secret created under a swallowed failure cannot be closed: %v", desc(), cerr)
					}
				}
			} else {
				if sec != nil && !isNilSecret(sec) {
					violate("secret-with-error/"+im.name, "%s: both a secret and an error were returned", desc())
				}
				checkNoRemains("creation")
				if c12Ops[op] == "New" {
					checkWipedBeforeUnlock()
				}
				// The secret of the failed creation was never handed out, so it is garbage: whenever the
				// collector gets to it, its finalizer runs. By then its address range may belong to a
				// secret created later - which must not notice.
				if fin1 := s.Finalizers(); fin1 > fin0 && len(viols) == 0 {
					count(st.Oracle, "finalizer-of-failed-creation")
					nextSrc := make([]byte, size)
					rnd.Fill(nextSrc)
					nextWant := append([]byte(nil), nextSrc...)
					regions0 := len(im.spy.Regions)
					next, nerr := im.factory.New(nextSrc)
					if nerr == nil {
						reused := false
						for _, r := range im.spy.Regions[regions0:] {
							for _, old := range im.spy.Regions[firstRegion:regions0] {
								if r.Addr == old.Addr {
									reused = true
								}
							}
						}
						if reused {
							s.Probe("c12.address-reused-after-failed-creation")
						}
						ran := s.RunFinalizers(fin0, fin1)
						s.Idle()
						if ran > 0 {
							var got []byte
							rerr := next.WithBytes(func(b []byte) error { got = append([]byte(nil), b...); return nil })
							if rerr != nil || !bytes.Equal(got, nextWant) {
								violate("stale-finalizer-hits-another-secret/"+im.name+"/"+c12Ops[op], "%s: the creation failed and released its pages, but the abandoned secret kept its finalizer; when it ran, a secret created afterwards at the same address was damaged (read error: %v, bytes intact: %v)", desc(), rerr, bytes.Equal(got, nextWant))
							}
						}
						next.Close()
					}
				}
			}
			count(st.Oracle, "inuse-balanced")
			if d := securememory.InUseCounter.Count() - inuse0; d != 0 && len(viols) == 0 {
				violate("inuse-counter/"+im.name+"/"+c12Ops[op], "%s: secret.inuse counter is off by %d afterwards", desc(), d)
			}
		case "WithBytes", "WithBytesFunc":
			sec, err := im.factory.New(src)
			if err != nil {
				violate("create-failed/"+im.name, "%s: fault-free creation failed: %v", desc(), err)
				return
			}
			withCloser := !swept && t.Choose(3, "concurrent-closer") == 1
			var closer *simrt.Task
			var closeErr error
			inside := func() {
				if withCloser && closer == nil {
					// a Close arrives while the reader is inside: it must park until the reader leaves
					closer = s.Go("closer", func() { closeErr = sec.Close() })
					s.Point(simrt.KSeam, "reader.inside")
				}
			}
			arm()
			ran := false
			if c12Ops[op] == "WithBytes" {
				err = sec.WithBytes(func(b []byte) error { ran = true; inside(); return nil })
			} else {
				_, err = sec.WithBytesFunc(func(b []byte) ([]byte, error) { ran = true; inside(); return nil, nil })
			}
			if closer != nil {
				// the pending Close must complete once the reader has left, whatever failed in the release
				// or in the Close itself (the fault plan stays armed until it has returned)
				count(st.Oracle, "pending-close-completes")
				s.Join(closer)
			}
			disarm()
			if closer != nil {
				if closeErr != nil {
					// a Close that failed leaves no reader inside: the secret is not left readable
					count(st.Oracle, "failed-close-leaves-nothing-readable")
					if im.name == "protectedmemory" {
						for _, r := range im.spy.Regions[firstRegion:] {
							if im.spy.ReadableSecret(r) {
								violate("readable-after-failed-close/"+im.name, "%s: the Close that waited for the reader failed (%v) and left the secret's pages %q with the secret still in them, although no reader is inside", desc(), closeErr, r.Prot)
								return
							}
						}
					}
					// a Close that reports failure can be retried
					if rerr := sec.Close(); rerr != nil {
						violate("close-not-retriable/"+im.name, "%s: the Close that waited for the reader failed (%v) and its retry failed too: %v", desc(), closeErr, rerr)
					}
				}
				checkNoRemains("access with a concurrent Close")
				if d := securememory.InUseCounter.Count() - inuse0; d != 0 && len(viols) == 0 {
					violate("inuse-counter/"+im.name+"/"+c12Ops[op], "%s: secret.inuse counter is off by %d after the concurrent Close", desc(), d)
				}
				return
			}
			count(st.Oracle, "access-under-fault")
			if fired != "" && err == nil {
				violate("swallowed-failure/"+im.name+"/"+c12Ops[op], "%s: a protection change failed during the access but no error was returned (callback ran: %v)", desc(), ran)
				return
			}
			if fired != "" && !ran {
				// the open failed: the secret must still be inaccessible and usable later
				count(st.Oracle, "failed-open-leaves-noaccess")
				for _, r := range im.spy.Regions[firstRegion:] {
					if r.Mapped && r.Prot != "none" && !(after && r.Prot == "r") {
						violate("readable-after-failed-open/"+im.name, "%s: after a failed open the pages are %q", desc(), r.Prot)
						return
					}
				}
			}
			if !functional(sec, "after a failed access, with faults off") {
				return
			}
			if cerr := sec.Close(); cerr != nil {
				violate("close-after-failed-access/"+im.name, "%s: Close after a failed access (faults off) failed: %v", desc(), cerr)
				return
			}
			checkNoRemains("access + Close")
			if d := securememory.InUseCounter.Count() - inuse0; d != 0 && len(viols) == 0 {
				violate("inuse-counter/"+im.name+"/"+c12Ops[op], "%s: secret.inuse counter is off by %d afterwards", desc(), d)
			}
		case "Reader":
			// the secret is consumed through its io.Reader, in one or several chunks: every Read opens and
			// re-protects the pages; a consumer (io.ReadAll, io.Copy, ...) takes io.EOF for "all delivered,
			// all well"
			sec, err := im.factory.New(src)
			if err != nil {
				violate("create-failed/"+im.name, "%s: fault-free creation failed: %v", desc(), err)
				return
			}
			chunk := (size + 1) / 2
			if !swept {
				chunk = []int{1 + size/4, (size + 1) / 2, size, size + 5}[t.Choose(4, "reader.chunk")]
			}
			rd := sec.NewReader()
			arm()
			var got []byte
			var rerr error
			buf := make([]byte, chunk)
			for i := 0; i < 16 && rerr == nil; i++ {
				var n int
				n, rerr = rd.Read(buf)
				got = append(got, buf[:n]...)
			}
			disarm()
			count(st.Oracle, "reader-under-fault")
			cleanEnd := rerr == io.EOF
			if fired != "" && cleanEnd {
				violate("swallowed-failure/"+im.name+"/Reader", "%s: a protection change failed while the secret was read through its Reader (chunks of %d) but the reads ended in a plain io.EOF, which every consumer takes for success", desc(), chunk)
				return
			}
			if fired == "" && !cleanEnd {
				violate("reader-failed/"+im.name, "%s: reading through the Reader failed although no fault fired: %v", desc(), rerr)
				return
			}
			if cleanEnd && !bytes.Equal(got, want) {
				violate("reader-wrong-bytes/"+im.name, "%s: the Reader delivered other bytes than the secret holds", desc())
				return
			}
			if !functional(sec, "after reading through the Reader, with faults off") {
				return
			}
			if cerr := sec.Close(); cerr != nil {
				violate("close-after-failed-access/"+im.name, "%s: Close after reading through the Reader (faults off) failed: %v", desc(), cerr)
				return
			}
			checkNoRemains("Reader + Close")
			if d := securememory.InUseCounter.Count() - inuse0; d != 0 && len(viols) == 0 {
				violate("inuse-counter/"+im.name+"/Reader", "%s: secret.inuse counter is off by %d afterwards", desc(), d)
			}
		case "Close":
			fin0 := s.Finalizers()
			sec, err := im.factory.New(src)
			if err != nil {
				violate("create-failed/"+im.name, "%s: fault-free creation failed: %v", desc(), err)
				return
			}
			fin1 := s.Finalizers()
			abandon := !swept && im.name == "protectedmemory" && t.Choose(3, "abandon-after-failed-close") == 1
			arm()
			err = sec.Close()
			disarm()
			if abandon && fired != "" && err != nil {
				// the owner gives up after the failed Close and drops the secret: the collector's
				// finalizer is then the retry, and it releases what the Close left behind
				count(st.Oracle, "finalizer-after-failed-close")
				for _, r := range im.spy.Regions[firstRegion:] {
					if im.spy.ReadableSecret(r) {
						violate("readable-after-failed-close/"+im.name, "%s: the failed Close left the secret's pages %q with the secret still in them", desc(), r.Prot)
						return
					}
				}
				sec = nil
				s.RunFinalizers(fin0, fin1)
				s.Idle()
				checkNoRemains("Close, after which the abandoned secret was finalized")
				if d := securememory.InUseCounter.Count() - inuse0; d != 0 && len(viols) == 0 {
					violate("inuse-counter/"+im.name+"/Close", "%s: secret.inuse counter is off by %d after the failed Close and the finalizer", desc(), d)
				}
				return
			}
			count(st.Oracle, "close-under-fault")
			if fired != "" && err == nil && im.name == "protectedmemory" {
				// Close swallowed a failure: then everything must really be released
				checkNoRemains("Close that reported success")
				return
			}
			if fired != "" && err != nil && im.name == "protectedmemory" {
				count(st.Oracle, "failed-close-leaves-nothing-readable")
				for _, r := range im.spy.Regions[firstRegion:] {
					if im.spy.ReadableSecret(r) {
						violate("readable-after-failed-close/"+im.name, "%s: the failed Close left the secret's pages %q with the secret still in them", desc(), r.Prot)
						return
					}
				}
			}
			if fired != "" {
				// between the failed Close and its retry the secret is either refused or intact, never wrong bytes
				count(st.Oracle, "access-after-failed-close")
				var seen []byte
				aerr := sec.WithBytes(func(b []byte) error { seen = append([]byte(nil), b...); return nil })
				if aerr == nil && !bytes.Equal(seen, want) {
					violate("wrong-bytes-after-failed-close/"+im.name, "%s: after a failed Close a reader was admitted and saw bytes that are not the secret (all zero: %v)", desc(), !bytes.ContainsFunc(seen, func(r rune) bool { return r != 0 }))
					return
				}
				// a failed Close can be retried to completion
				count(st.Oracle, "close-retry")
				if rerr := sec.Close(); rerr != nil {
					violate("close-not-retriable/"+im.name, "%s: retrying the failed Close (faults off) failed again: %v", desc(), rerr)
					return
				}
			}
			checkNoRemains("Close (+retry)")
			checkWipedBeforeUnlock()
			if d := securememory.InUseCounter.Count() - inuse0; d != 0 && len(viols) == 0 {
				violate("inuse-counter/"+im.name+"/Close", "%s: secret.inuse counter is off by %d after Close", desc(), d)
			}
		}
	})
	out := Outcome{Viols: viols}
	st.Nontrivial = fired != ""
	st.Class = fmt.Sprintf("%s|%s|%s", implName, c12Ops[op], fired)
	st.Faults = map[string]int{}
	if fired != "" {
		for _, f := range strings.Split(fired, ",") {
			name := f
			if i := strings.Index(f, "#"); i > 0 {
				name = f[:i]
			}
			st.Faults["memcall:"+name]++
		}
	}
	st.Sample = map[string]any{"implementation": implName, "operation": c12Ops[op], "fault": fired, "call_index": k, "after": after}
	fo := finish(s, nil, st, true)
	faults := st.Faults
	out.Stats, out.Infra, out.Log = fo.Stats, fo.Infra, fo.Log
	out.Stats.Faults = faults
	if f := s.Failure(); f != nil && len(out.Viols) == 0 {
		switch f.Kind {
		case simrt.FailDeadlock:
			out.Infra = nil
			out.Viols = append(out.Viols, world.Violation{Prop: "C12", Rule: "deadlock", Signature: "C12/deadlock/" + implName, Msg: f.Msg})
		case simrt.FailPanic:
			out.Infra = nil
			out.Viols = append(out.Viols, world.Violation{Prop: "C12", Rule: "panic", Signature: "C12/" + panicKind(f.Msg) + "/" + implName, Msg: f.Msg + "\n" + f.Stack})
		}
	}
	return out
}

func isNilSecret(s securememory.Secret) bool {
	defer func() { recover() }()
	return fmt.Sprintf("%v", s) == "<nil>"
}

// How a reader callback leaves: by returning nil, by returning an error, or by panicking (the caller
// of WithBytes recovers). In every case the reader is no longer inside afterwards.
const (
	cbReturn = iota
	cbError
	cbPanic
)

var cbLeaveNames = [...]string{"returns", "returns an error", "panics"}

type callbackPanic struct{}

var errCallback = errors.New("verif: the reader callback reports an error")

func cbLeave(t *simrt.Tape) int {
	switch t.Choose(8, "callback.leaves") {
	case 6:
		return cbError
	case 7:
		return cbPanic
	}
	return cbReturn
}

func leaveCallback(leave int) error {
	return leaveCallbackCounted(leave, nil)
}

func leaveCallbackCounted(leave int, faults map[string]int) error {
	if faults != nil && leave != cbReturn {
		faults["reader-callback."+map[int]string{cbError: "returns-error", cbPanic: "panics"}[leave]]++
	}
	switch leave {
	case cbError:
		return errCallback
	case cbPanic:
		panic(callbackPanic{})
	}
	return nil
}

// callbackUnwinds runs fn and reports whether it was left by the callback's own panic; any other
// panic is passed on.
func callbackUnwinds(fn func()) (unwound bool) {
	defer func() {
		if r := recover(); r != nil {
			if _, ok := r.(callbackPanic); ok {
				unwound = true
				return
			}
			panic(r)
		}
	}()
	fn()
	return false
}
