package props

import (
	"time"

	"verif/sim/simrt"
	"verif/sim/world"
)

// Scenarios prepare a key state and leave a session on which the target operation is issued.
const (
	scCold = iota
	scWarmCache
	scWarmStoreColdCache
	scExpired       // IK and SK past their lifetime, caches warm
	scIKRevoked     // latest IK revoked, caches warm, one interval later
	scSKRevoked     // latest SK revoked, caches warm, two intervals later
	scExpiredCold   // expired keys in the store, fresh process
	scRotatedByPeer // another (foreign) writer has rotated the IK since the cache was filled
	scCount
)

var scNames = [...]string{"cold", "warm-cache", "warm-store-cold-cache", "expired-warm", "ik-revoked", "sk-revoked", "expired-cold", "rotated-by-peer"}

var sweepKinds = []string{world.FErrBefore, world.FErrAfter, world.FFalseDup, world.FRace}

// setupScenario builds the state and returns the session for the target operation.
func setupScenario(w *world.World, t *simrt.Tape, sc int, pol world.PolicyCfg, part string) *world.Sess {
	mk := func() (*world.Proc, *world.Sess) {
		p := w.NewProc(pol)
		se, err := w.Open(p, part)
		if err != nil {
			return p, nil
		}
		return p, se
	}
	warm := func(se *world.Sess) {
		w.Encrypt(se, w.Payload(2))
	}
	step := pol.Precision
	if step < time.Second {
		step = time.Second
	}
	switch sc {
	case scCold:
		_, se := mk()
		return se
	case scWarmCache:
		_, se := mk()
		warm(se)
		return se
	case scWarmStoreColdCache:
		_, se := mk()
		warm(se)
		_, se2 := mk()
		return se2
	case scExpired:
		_, se := mk()
		warm(se)
		w.Advance(pol.Expire + step + time.Second)
		return se
	case scIKRevoked:
		_, se := mk()
		warm(se)
		if c, ok := w.Store.Rows.Latest(w.IKID(part)); ok {
			w.Store.Revoke(w.IKID(part), c)
		}
		w.Advance(pol.Revoke + step + time.Second)
		return se
	case scSKRevoked:
		_, se := mk()
		warm(se)
		if c, ok := w.Store.Rows.Latest(w.SKID()); ok {
			w.Store.Revoke(w.SKID(), c)
		}
		w.Advance(2*pol.Revoke + step + time.Second)
		return se
	case scExpiredCold:
		_, se := mk()
		warm(se)
		w.Advance(pol.Expire + step + time.Second)
		_, se2 := mk()
		return se2
	case scRotatedByPeer:
		_, se := mk()
		warm(se)
		w.Advance(pol.Revoke + step + time.Second)
		w.Foreign().RotateIK(part, pol.Precision, pol.Expire)
		return se
	}
	return nil
}

// sweepPrefixes enumerates scenario x call index x fault kind.
func sweepPrefixes(maxCalls int) [][]uint32 {
	var out [][]uint32
	for sc := 0; sc < scCount; sc++ {
		for k := 0; k < maxCalls; k++ {
			for kind := range sweepKinds {
				out = append(out, []uint32{1, uint32(sc), uint32(k), uint32(kind)})
			}
		}
	}
	return out
}
