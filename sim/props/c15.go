package props

import (
	"fmt"
	applog "github.com/godaddy/asherah/go/appencryption/pkg/log"
	"runtime/debug"
	"sort"
	"strings"
	"time"

	"github.com/godaddy/asherah/go/appencryption/pkg/cache"

	"verif/sim/simrt"
	"verif/sim/world"
)

func init() {
	register(&Property{
		ID:    "C15",
		Level: "exploration",
		Rule: "one case = one program of Set/Get/Delete/clock-advance/Close over <=6 keys run against the real cache package built through its public builder (policy in {lru, lfu, slru, tinylfu}, capacity in {1..12, 99, 100, 101, 199, 200, 201}, expiry on/off, synchronous or asynchronous eviction delivery with the event goroutine under the simulator's scheduler) and compared step by step with a reference model; all programs up to length 3 (quick) / 4 (thorough) over a 3-key alphabet are enumerated for capacities 1-3 and every policy, longer programs (up to 200 steps) are sampled; " +
			"non-trivial = at least one eviction, expiry or Close-drain happened; distinct = distinct (policy, capacity, expiry, sync, program) tuples",
		Run:         runC15,
		Sweep:       sweepC15,
		QuickSec:    15,
		ThoroughSec: 420,
		Assumptions: []string{
			"the eviction callback does not re-enter the cache (API misuse, excluded)",
			"TinyLFU's admission decisions are approximate by design: for it only the generic obligations are checked (bounded size, read-your-write unless evicted/expired/deleted, exactly-once callbacks); LRU, LFU and SLRU victims are predicted exactly",
		},
	})
}

type simClock struct{ s *simrt.Sim }

func (c simClock) Now() time.Time { return c.s.Now() }

var c15Policies = []cache.CachePolicy{cache.LRU, cache.LFU, cache.SLRU, cache.TinyLFU}
var c15Caps = []int{1, 2, 3, 4, 5, 6, 7, 8, 9, 10, 11, 12, 99, 100, 101, 199, 200, 201}

const (
	c15Set = iota
	c15Get
	c15Delete
	c15Advance
	c15Close
	c15Len
)

func sweepC15(tier string) [][]uint32 {
	L := 3
	if tier == "thorough" {
		L = 4
	}
	// symbols: Set k0..k2 (0-2), Get k0..k2 (3-5), Delete k0..k2 (6-8), advance (9), close (10)
	var out [][]uint32
	var rec func(prefix []uint32, depth int)
	for pi := range c15Policies {
		for ci := 0; ci < 3; ci++ {
			for _, syn := range []uint32{0, 1} {
				if syn == 1 && tier != "thorough" && ci > 0 {
					continue
				}
				for _, exp := range []uint32{0, 1} {
					base := []uint32{1, uint32(pi), uint32(ci), syn, exp, uint32(L)}
					rec = func(prefix []uint32, depth int) {
						if depth == L {
							out = append(out, append([]uint32(nil), prefix...))
							return
						}
						for sym := uint32(0); sym < 11; sym++ {
							rec(append(prefix, sym), depth+1)
						}
					}
					rec(base, 0)
				}
			}
		}
	}
	return out
}

type evicted struct {
	k string
	v int
}

// refCache is the reference model.
type refCache struct {
	policy cache.CachePolicy
	capn   int
	vals   map[string]int
	exp    map[string]time.Time
	closed bool
	// lru: order[0] = most recent
	lru []string
	// lfu
	freq map[string]int
	fseq map[string]int // sequence number of the last promotion (smaller = earlier in its frequency list)
	seq  int
	// slru
	prob, prot []string // index 0 = front (most recent)
	protCap    int
}

func newRef(p cache.CachePolicy, capn int) *refCache {
	return &refCache{policy: p, capn: capn, vals: map[string]int{}, exp: map[string]time.Time{}, freq: map[string]int{}, fseq: map[string]int{}, protCap: int(float64(capn) * 0.8)}
}

func remove(a []string, k string) []string {
	for i, x := range a {
		if x == k {
			return append(a[:i:i], a[i+1:]...)
		}
	}
	return a
}

func (r *refCache) admit(k string) {
	switch r.policy {
	case cache.LRU:
		r.lru = append([]string{k}, r.lru...)
	case cache.LFU:
		r.freq[k] = 1
		r.seq++
		r.fseq[k] = r.seq
	case cache.SLRU:
		r.prob = append([]string{k}, r.prob...)
	}
}

func (r *refCache) access(k string) {
	switch r.policy {
	case cache.LRU:
		r.lru = append([]string{k}, remove(r.lru, k)...)
	case cache.LFU:
		r.freq[k]++
		r.seq++
		r.fseq[k] = r.seq
	case cache.SLRU:
		for _, x := range r.prot {
			if x == k {
				r.prot = append([]string{k}, remove(r.prot, k)...)
				return
			}
		}
		r.prob = remove(r.prob, k)
		r.prot = append([]string{k}, r.prot...)
		if len(r.prot) > r.protCap {
			b := r.prot[len(r.prot)-1]
			r.prot = r.prot[:len(r.prot)-1]
			r.prob = append([]string{b}, r.prob...)
		}
	}
}

func (r *refCache) forget(k string) {
	delete(r.vals, k)
	delete(r.exp, k)
	r.lru = remove(r.lru, k)
	delete(r.freq, k)
	delete(r.fseq, k)
	r.prob = remove(r.prob, k)
	r.prot = remove(r.prot, k)
}

// victim predicts the next victim ("" = no exact prediction for this policy).
func (r *refCache) victim() string {
	switch r.policy {
	case cache.LRU:
		if len(r.lru) > 0 {
			return r.lru[len(r.lru)-1]
		}
	case cache.LFU:
		best := ""
		for k, f := range r.freq {
			if best == "" || f < r.freq[best] || (f == r.freq[best] && r.fseq[k] < r.fseq[best]) {
				best = k
			}
		}
		return best
	case cache.SLRU:
		if len(r.prob) > 0 {
			return r.prob[len(r.prob)-1]
		}
		if len(r.prot) > 0 {
			return r.prot[len(r.prot)-1]
		}
	}
	return ""
}

// renderLogger formats every debug line (running the String methods of what is logged) and drops it.
type renderLogger struct{}

func (renderLogger) Debugf(format string, v ...interface{}) { _ = fmt.Sprintf(format, v...) }

func runC15(t *simrt.Tape, o Opts) Outcome {
	swept := t.Choose(2, "mode.sweep") == 1
	pi := t.Choose(len(c15Policies), "policy")
	ci := t.Choose(len(c15Caps), "cap")
	syn := t.Choose(2, "sync") == 1
	expOn := t.Choose(2, "expiry") == 1
	var n int
	if swept {
		n = t.Choose(8, "len")
	} else {
		n = 1 + t.Choose(200, "len")
	}
	// long histories over more keys than a large cache holds (sample windows, counters and segments
	// of the admission policies roll over only after hundreds of accesses)
	long := !swept && c15Caps[ci] >= 99 && t.Choose(6, "long-history") == 1
	if long {
		n = 24*c15Caps[ci] + t.Choose(200, "len.long")
	}
	// the application may have wired up the SDK's debug log (log.SetLogger): the cache then renders its
	// debug lines, from its own goroutines too
	if t.Choose(4, "debug-log") == 1 {
		applog.SetLogger(renderLogger{})
		defer applog.SetLogger(nil)
	}
	if !swept && !long && t.Choose(4, "concurrent-clients") == 1 {
		return runC15Concurrent(t, o, pi, ci, syn, expOn)
	}
	cfg := schedCfg(t, o, !syn && t.Choose(2, "schedmix") == 1)
	var st Stats
	st.Oracle = map[string]int{}
	st.Faults = map[string]int{}
	var viols []world.Violation
	violate := func(sig, format string, a ...any) {
		if len(viols) == 0 {
			viols = append(viols, world.Violation{Prop: "C15", Rule: strings.SplitN(sig, "/", 2)[0], Signature: "C15/" + sig, Msg: fmt.Sprintf(format, a...)})
		}
	}
	policy := c15Policies[pi]
	capn := c15Caps[ci]
	var prog []string
	leaving := 0
	s := simrt.Run(t, cfg, func(s *simrt.Sim) {
		var got []evicted
		b := cache.New[string, int](capn).WithPolicy(policy).WithClock(simClock{s}).WithEvictFunc(func(k string, v int) {
			got = append(got, evicted{k, v})
			s.Logf("evict %s=%d", k, v)
		})
		expiry := time.Duration(0)
		if expOn {
			expiry = 10 * time.Second
			b = b.WithExpiry(expiry)
		}
		if syn {
			b = b.Synchronous()
		}
		var c cache.Interface[string, int]
		ref := newRef(policy, capn)
		var want []evicted
		nextVal := 0
		nkeys := 6
		if swept {
			nkeys = 3
		}
		if long {
			nkeys = capn + 1 + t.Choose(12, "nkeys.long")
		}
		settle := func(where string) {
			if !syn {
				s.Idle()
			}
			count(st.Oracle, "callback-multiset")
			if len(got) != len(want) {
				violate("callbacks-mismatch/"+string(policy), "%s (policy %s cap %d sync %v expiry %v) after %v: eviction callbacks delivered %v but the entries that left are %v", where, policy, capn, syn, expOn, prog, got, want)
				return
			}
			a, bb := append([]evicted(nil), got...), append([]evicted(nil), want...)
			less := func(x []evicted) func(i, j int) bool {
				return func(i, j int) bool { return x[i].k < x[j].k || (x[i].k == x[j].k && x[i].v < x[j].v) }
			}
			sort.Slice(a, less(a))
			sort.Slice(bb, less(bb))
			for i := range a {
				if a[i] != bb[i] {
					violate("callbacks-mismatch/"+string(policy), "%s (policy %s cap %d sync %v expiry %v) after %v: eviction callbacks %v differ from the entries that left %v", where, policy, capn, syn, expOn, prog, got, want)
					return
				}
			}
		}
		step := func(kind int, key string) {
			defer func() {
				if r := recover(); r != nil {
					violate("panic@"+panicWhere(string(debug.Stack())), "policy %s cap %d sync %v expiry %v: %s(%s) panicked after %v: %v", policy, capn, syn, expOn, []string{"Set", "Get", "Delete", "advance", "Close", "Len"}[kind], key, prog, r)
				}
			}()
			switch kind {
			case c15Set:
				nextVal++
				v := nextVal
				prog = append(prog, fmt.Sprintf("Set(%s,%d)", key, v))
				// model first (prediction), then the real call
				var expectVictim string
				willEvict := false
				if !ref.closed {
					if _, ok := ref.vals[key]; !ok && len(ref.vals) == ref.capn {
						willEvict = true
						expectVictim = ref.victim()
					}
				}
				before := len(got)
				c.Set(key, v)
				if !syn {
					s.Idle()
				}
				if ref.closed {
					return
				}
				if _, ok := ref.vals[key]; ok {
					ref.vals[key] = v
					if expOn {
						ref.exp[key] = s.Now().Add(expiry)
					}
					ref.access(key)
					return
				}
				if willEvict {
					count(st.Oracle, "victim-choice")
					leaving++
					if len(got) != before+1 {
						violate("no-eviction-at-capacity/"+string(policy), "policy %s cap %d: Set of a new key into a full cache fired %d callbacks after %v", policy, capn, len(got)-before, prog)
						return
					}
					vk := got[len(got)-1].k
					old, present := ref.vals[vk]
					if !present {
						violate("evicted-unknown-entry/"+string(policy), "policy %s cap %d: callback for %s which is not in the cache, after %v", policy, capn, vk, prog)
						return
					}
					if expectVictim != "" && vk != expectVictim {
						violate("wrong-victim/"+string(policy), "policy %s cap %d: evicted %s but the policy's definition selects %s, after %v", policy, capn, vk, expectVictim, prog)
						return
					}
					want = append(want, evicted{vk, old})
					ref.forget(vk)
				}
				ref.vals[key] = v
				if expOn {
					ref.exp[key] = s.Now().Add(expiry)
				}
				ref.admit(key)
			case c15Get:
				prog = append(prog, fmt.Sprintf("Get(%s)", key))
				var v int
				var ok bool
				if !swept && t.Choose(4, "get.or-panic") == 1 {
					// GetOrPanic: a miss is a panic the caller recovers from; the cache stays usable
					prog[len(prog)-1] = fmt.Sprintf("GetOrPanic(%s)", key)
					ok = true
					func() {
						defer func() {
							if r := recover(); r != nil {
								ok = false
							}
						}()
						v = c.GetOrPanic(key)
					}()
				} else {
					v, ok = c.Get(key)
				}
				count(st.Oracle, "get")
				mv, present := ref.vals[key]
				if ref.closed {
					present = false
				}
				if present && expOn && ref.exp[key].Before(s.Now()) {
					// expired: leaves now, with a callback
					want = append(want, evicted{key, mv})
					ref.forget(key)
					present = false
					leaving++
				}
				if ok != present {
					violate("get-presence/"+string(policy), "policy %s cap %d sync %v expiry %v: Get(%s) hit=%v but the model says %v, after %v", policy, capn, syn, expOn, key, ok, present, prog)
					return
				}
				if ok && v != mv {
					violate("get-stale-value/"+string(policy), "policy %s: Get(%s) returned %d, most recent Set was %d, after %v", policy, key, v, mv, prog)
					return
				}
				if present {
					ref.access(key)
				}
			case c15Delete:
				prog = append(prog, fmt.Sprintf("Delete(%s)", key))
				ok := c.Delete(key)
				_, present := ref.vals[key]
				if ref.closed {
					present = false
				}
				if ok != present {
					violate("delete-result/"+string(policy), "policy %s: Delete(%s) returned %v but presence was %v, after %v", policy, key, ok, present, prog)
					return
				}
				ref.forget(key)
			case c15Advance:
				d := []time.Duration{time.Second, 9 * time.Second, 10 * time.Second, 11 * time.Second}[t.Choose(4, "adv")]
				prog = append(prog, fmt.Sprintf("advance(%v)", d))
				st.Faults["clock.jump-forward"]++
				s.Advance(d)
			case c15Close:
				prog = append(prog, "Close()")
				c.Close()
				if !ref.closed {
					for k, v := range ref.vals {
						want = append(want, evicted{k, v})
						leaving++
					}
					for k := range ref.vals {
						ref.forget(k)
					}
					ref.closed = true
				}
			case c15Len:
				n := c.Len()
				want := len(ref.vals)
				if n != want && !ref.closed {
					violate("len/"+string(policy), "policy %s: Len()=%d, model %d, after %v", policy, n, want, prog)
				}
				if n > capn {
					violate("over-capacity/"+string(policy), "policy %s: %d entries exceed capacity %d after %v", policy, n, capn, prog)
				}
			}
		}
		func() {
			defer func() {
				if r := recover(); r != nil {
					violate("panic@"+panicWhere(string(debug.Stack())), "building cache policy %s cap %d panicked: %v", policy, capn, r)
				}
			}()
			c = b.Build()
		}()
		if c == nil {
			return
		}
		for i := 0; i < n && len(viols) == 0 && s.Failure() == nil; i++ {
			var kind int
			var key string
			if swept {
				sym := t.Choose(11, "sym")
				switch {
				case sym < 9:
					kind, key = sym/3, fmt.Sprintf("k%d", sym%3)
				case sym == 9:
					kind = c15Advance
				default:
					kind = c15Close
				}
			} else {
				r := t.Choose(20, "kind")
				switch {
				case r < 8:
					kind = c15Set
				case r < 14:
					kind = c15Get
				case r < 16:
					kind = c15Delete
				case r < 18:
					kind = c15Advance
				case r < 19:
					kind = c15Len
				default:
					kind = c15Close
					if long || t.Choose(4, "reallyclose") != 0 {
						kind = c15Len // (a long history closes only at its end)
					}
				}
				key = fmt.Sprintf("k%d", t.Choose(nkeys, "key"))
			}
			step(kind, key)
			if len(viols) == 0 && (!long || i%64 == 63) {
				step(c15Len, "")
				settle("mid-run")
			}
		}
		if len(viols) == 0 {
			step(c15Close, "")
			settle("after Close")
		}
	})
	out := Outcome{Viols: viols}
	st.Nontrivial = leaving > 0
	st.Class = fmt.Sprintf("%s/%d/%v/%v|%s", policy, capn, syn, expOn, strings.Join(prog, ";"))
	if len(st.Class) > 200 {
		st.Class = st.Class[:200] + fmt.Sprintf("#%x", simrtHash(strings.Join(prog, ";")))
	}
	st.Sample = map[string]any{"policy": string(policy), "capacity": capn, "synchronous": syn, "expiry": expOn, "program": first(prog, 30)}
	st.Ops = len(prog)
	fo := finish(s, nil, st, true)
	out.Stats, out.Infra, out.Log = fo.Stats, fo.Infra, fo.Log
	if f := s.Failure(); f != nil {
		switch f.Kind {
		case simrt.FailDeadlock:
			out.Infra = nil
			if len(out.Viols) == 0 {
				out.Viols = append(out.Viols, world.Violation{Prop: "C15", Rule: "deadlock", Signature: "C15/deadlock/" + string(policy), Msg: fmt.Sprintf("policy %s cap %d sync %v: all tasks blocked after %v: %s", policy, capn, syn, prog, f.Msg)})
			}
		case simrt.FailPanic:
			out.Infra = nil
			if len(out.Viols) == 0 {
				out.Viols = append(out.Viols, world.Violation{Prop: "C15", Rule: "panic", Signature: "C15/" + panicKind(f.Msg), Msg: f.Msg + "\n" + f.Stack})
			}
		}
	}
	return out
}

func panicWhere(stack string) string {
	lines := strings.Split(stack, "\n")
	seen := false
	for _, l := range lines {
		if strings.HasPrefix(l, "panic(") {
			seen = true
			continue
		}
		if !seen || strings.HasPrefix(l, "\t") {
			continue
		}
		if strings.Contains(l, "godaddy/asherah") {
			if i := strings.LastIndex(l, "("); i > 0 {
				l = l[:i]
			}
			if i := strings.LastIndex(l, "/"); i >= 0 {
				l = l[i+1:]
			}
			return l
		}
	}
	return "?"
}

// runC15Concurrent: 2-4 client tasks use one cache at once. Under concurrency only the
// order-independent obligations are checked: no panic, no deadlock, never more retrievable entries
// than the capacity, Len() equal to the number of retrievable entries at quiescence, and conservation
// of eviction notifications: every notification carries a (key, value) that was set, no (key, value)
// is notified twice, nothing still retrievable has been notified, and Close notifies exactly what was
// still retrievable.
func runC15Concurrent(t *simrt.Tape, o Opts, pi, ci int, syn, expOn bool) Outcome {
	cfg := schedCfg(t, o, true)
	var st Stats
	st.Oracle = map[string]int{}
	st.Faults = map[string]int{}
	var viols []world.Violation
	violate := func(sig, format string, a ...any) {
		if len(viols) == 0 {
			viols = append(viols, world.Violation{Prop: "C15", Rule: strings.SplitN(sig, "/", 2)[0], Signature: "C15/" + sig, Msg: fmt.Sprintf(format, a...)})
		}
	}
	policy := c15Policies[pi]
	capn := c15Caps[ci%12] // small capacities: contention on few slots
	nkeys := 2 + t.Choose(5, "nkeys")
	leaving := 0
	desc := fmt.Sprintf("policy %s cap %d sync %v expiry %v, concurrent clients", policy, capn, syn, expOn)
	s := simrt.Run(t, cfg, func(s *simrt.Sim) {
		type kv struct {
			k string
			v int
		}
		notified := map[kv]int{}
		var order []kv
		b := cache.New[string, int](capn).WithPolicy(policy).WithClock(simClock{s}).WithEvictFunc(func(k string, v int) {
			notified[kv{k, v}]++
			order = append(order, kv{k, v})
		})
		if expOn {
			b = b.WithExpiry(10 * time.Second)
		}
		if syn {
			b = b.Synchronous()
		}
		c := b.Build()
		set := map[kv]bool{}
		nextVal := 0
		nclients := 2 + t.Choose(3, "nclients")
		var tasks []*simrt.Task
		panicked := ""
		for ci := 0; ci < nclients; ci++ {
			type step struct {
				kind int
				key  string
				adv  time.Duration
			}
			n := 3 + t.Choose(12, "len")
			plan := make([]step, n)
			for i := range plan {
				r := t.Choose(10, "kind")
				st := step{key: fmt.Sprintf("k%d", t.Choose(nkeys, "key"))}
				switch {
				case r < 4:
					st.kind = c15Set
				case r < 8:
					st.kind = c15Get
				case r < 9:
					st.kind = c15Delete
				default:
					st.kind = c15Advance
					st.adv = []time.Duration{time.Second, 10 * time.Second, 11 * time.Second}[t.Choose(3, "adv")]
				}
				plan[i] = st
			}
			tasks = append(tasks, s.Go("client", func() {
				defer func() {
					if r := recover(); r != nil {
						panicked = fmt.Sprintf("%v @ %s", r, panicWhere(string(debug.Stack())))
					}
				}()
				for _, stp := range plan {
					if s.Ending() || panicked != "" {
						return
					}
					switch stp.kind {
					case c15Set:
						nextVal++
						v := nextVal
						set[kv{stp.key, v}] = true
						c.Set(stp.key, v)
					case c15Get:
						if v, ok := c.Get(stp.key); ok && !set[kv{stp.key, v}] {
							violate("get-unknown-value/"+string(policy), "%s: Get(%s) returned %d which was never set for that key", desc, stp.key, v)
						}
					case c15Delete:
						c.Delete(stp.key)
					case c15Advance:
						st.Faults["clock.jump-forward"]++
						s.Advance(stp.adv)
					}
				}
			}))
		}
		for _, tk := range tasks {
			s.Join(tk)
		}
		if panicked != "" {
			violate("panic@"+panicked[strings.LastIndex(panicked, "@ ")+2:], "%s: a cache operation panicked under concurrent use: %s", desc, panicked)
			return
		}
		if !syn {
			s.Idle()
		}
		// quiescent audit
		count(st.Oracle, "concurrent-quiescent-audit")
		retrievable := map[kv]bool{}
		for i := 0; i < nkeys; i++ {
			k := fmt.Sprintf("k%d", i)
			if v, ok := c.Get(k); ok {
				retrievable[kv{k, v}] = true
			}
		}
		if !syn {
			s.Idle()
		}
		if len(retrievable) > capn {
			violate("over-capacity/"+string(policy), "%s: %d entries are retrievable, capacity is %d", desc, len(retrievable), capn)
			return
		}
		if n := c.Len(); n != len(retrievable) {
			violate("len/"+string(policy), "%s: Len()=%d but %d entries are retrievable", desc, n, len(retrievable))
			return
		}
		for e, n := range notified {
			if !set[e] {
				violate("evicted-unknown-entry/"+string(policy), "%s: eviction notification for %s=%d which was never set", desc, e.k, e.v)
				return
			}
			if n > 1 {
				violate("notified-twice/"+string(policy), "%s: entry %s=%d was notified %d times", desc, e.k, e.v, n)
				return
			}
			if retrievable[e] {
				violate("notified-while-retrievable/"+string(policy), "%s: entry %s=%d is still retrievable but its eviction was already notified", desc, e.k, e.v)
				return
			}
		}
		leaving = len(notified)
		before := len(order)
		if nclosers := 1 + t.Choose(3, "closers"); nclosers > 1 {
			// several owners shut the cache down at once (a server's signal handler and its deferred
			// clean-up): every Close returns and the entries are notified once
			var cl []*simrt.Task
			for i := 0; i < nclosers; i++ {
				cl = append(cl, s.Go("closer", func() { c.Close() }))
			}
			for _, tk := range cl {
				s.Join(tk)
			}
		} else {
			c.Close()
		}
		if !syn {
			s.Idle()
		}
		count(st.Oracle, "concurrent-close-drain")
		closed := map[kv]bool{}
		for _, e := range order[before:] {
			closed[e] = true
		}
		for e := range retrievable {
			if !closed[e] {
				violate("close-missed-entry/"+string(policy), "%s: Close did not notify the retrievable entry %s=%d", desc, e.k, e.v)
				return
			}
		}
		for e := range closed {
			if !retrievable[e] {
				violate("close-notified-unknown/"+string(policy), "%s: Close notified %s=%d which was not retrievable", desc, e.k, e.v)
				return
			}
		}
		for e, n := range notified {
			if n > 1 {
				violate("notified-twice/"+string(policy), "%s: entry %s=%d was notified %d times", desc, e.k, e.v, n)
				return
			}
		}
	})
	out := Outcome{Viols: viols}
	st.Nontrivial = leaving > 0
	st.Class = fmt.Sprintf("conc|%s/%d/%v/%v|%x", policy, capn, syn, expOn, s.TraceHash)
	st.Sample = map[string]any{"mode": "concurrent clients", "policy": string(policy), "capacity": capn, "synchronous": syn, "expiry": expOn, "switches": s.Switches}
	fo := finish(s, nil, st, true)
	out.Stats, out.Infra, out.Log = fo.Stats, fo.Infra, fo.Log
	if f := s.Failure(); f != nil {
		switch f.Kind {
		case simrt.FailDeadlock:
			out.Infra = nil
			if len(out.Viols) == 0 {
				out.Viols = append(out.Viols, world.Violation{Prop: "C15", Rule: "deadlock", Signature: "C15/deadlock/" + string(policy), Msg: desc + ": all tasks blocked: " + f.Msg})
			}
		case simrt.FailPanic:
			out.Infra = nil
			if len(out.Viols) == 0 {
				out.Viols = append(out.Viols, world.Violation{Prop: "C15", Rule: "panic", Signature: "C15/" + panicKind(f.Msg), Msg: f.Msg + "\n" + f.Stack})
			}
		}
	}
	return out
}
