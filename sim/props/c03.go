package props

import (
	"bytes"
	"context"
	"fmt"
	"strings"
	"sync/atomic"

	"github.com/aws/aws-sdk-go-v2/aws"
	kmsv2 "github.com/aws/aws-sdk-go-v2/service/kms"
	"github.com/godaddy/asherah/go/appencryption"
	"github.com/godaddy/asherah/go/appencryption/pkg/crypto/aead"
	applog "github.com/godaddy/asherah/go/appencryption/pkg/log"
	pluginv1 "github.com/godaddy/asherah/go/appencryption/plugins/aws-v1/kms"
	pluginv2 "github.com/godaddy/asherah/go/appencryption/plugins/aws-v2/kms"
	smlog "github.com/godaddy/asherah/go/securememory/log"

	"verif/sim/refimpl"
	"verif/sim/simrt"
	"verif/sim/world"
)

func init() {
	register(&Property{
		ID:    "C03",
		Level: "exploration",
		Rule: "one case = one simulated history with many encrypts per key (10-300) over 1-6 partitions, rotations by expiry/revocation/peer, restarts and decrypts, debug logging switched on through log.SetLogger; every AEAD call (key fingerprint, nonce, plaintext fingerprint), every KMS request and every byte string that leaves the SDK (records, metastore rows, rendered log lines) is recorded at the seams and audited; " +
			"non-trivial = at least 10 encrypts and one key creation were audited; distinct = distinct (policy class, number of keys created, rotation causes) tuples",
		Run:         runC03,
		QuickSec:    15,
		ThoroughSec: 420,
		Assumptions: []string{
			"'fresh randomness' is checked as: a new draw from the process's random source per data key and per nonce and no repetition; the quality of crypto/rand itself is outside the technique",
			"leak scan looks for raw, hex and base64 (std/url, any alignment) forms of every key plaintext (>=16 bytes) and of every unique payload of at least 16 bytes",
		},
	})
}

// capture loggers are process-global in the SDK; they forward to the world of the running simulation.
var logSink atomic.Pointer[world.World]

type capLogger struct{}

func (capLogger) Debugf(format string, v ...interface{}) {
	if w := logSink.Load(); w != nil {
		w.LogLine(fmt.Sprintf(format, v...))
	}
}

var loggersInstalled bool

// The code under test may legitimately keep random bytes across operations (a pool); what a worker
// process has read from the simulated crypto/rand is therefore remembered across its runs, (reuse
// of a nonce value is judged within one run only: two runs may share a DRBG seed).
var (
	c03Stream []byte
	c03Known  = map[string]bool{} // chunks read in earlier runs of this process
)

func runC03(t *simrt.Tape, o Opts) Outcome {
	if !loggersInstalled {
		applog.SetLogger(capLogger{})
		smlog.SetLogger(capLogger{})
		loggersInstalled = true
	}
	if t.Choose(5, "mode.kmsplugins") == 1 {
		return runC03KMS(t, o)
	}
	cfg := schedCfg(t, o, true)
	var w *world.World
	var st Stats
	s := simrt.Run(t, cfg, func(s *simrt.Sim) {
		w = world.New(s, "C03")
		w.ScanLeaks = true
		s.RandLog = map[string]int{}
		s.RandStream = c03Stream // everything this process ever read from the simulated crypto/rand
		logSink.Store(w)
		defer logSink.Store(nil)
		st.Oracle = map[string]int{}
		h := &hist{w: w, t: t, parts: world.Partitions[:1+t.Choose(6, "nparts")], maxProc: 2, samePolicyTimes: true}
		h.gen = world.GenOpts{AllowTinyLFU: allowTinyLFU, SmallCaps: t.Choose(3, "smallcaps") == 1}
		h.weights = [opKinds]int{opEncrypt: 20, opDecrypt: 4, opOpen: 2, opCloseSess: 1, opAdvance: 2, opRevoke: 1, opForeignRotate: 1, opRestart: 1, opNewProc: 1, opBurst: 1}
		h.payloadClasses = []int{2, 3, 0, 1}
		h.newProc()
		if t.Choose(4, "faulty") == 1 {
			// secure-memory allocation, KMS and metastore read failures: whatever is emitted by the
			// operations that still succeed obeys the same discipline
			enableRandomFaults(w, t, []string{"alloc.err", "kms.err", "ms.err"}, h.base.Expire, h.base.Revoke)
			w.Faults.Kinds["alloc.err"] = true
			w.Faults.Kinds["ms.readonly-faults"] = true
		}
		payloadFP := map[string]bool{}
		h.hooks.afterEncrypt = func(se *world.Sess, rec *world.Rec, op *world.OpRec) {
			if rec == nil {
				if op.Panic == "" && op.Faulted == 0 {
					w.Violate("encrypt-failed", "encrypt-failed/no-fault", "encrypt failed: %v", op.Err)
				}
				return
			}
			w.AddSensitivePayload(rec.Payload)
			payloadFP[refimpl.FP(rec.Payload)] = true
			auditEncrypt(w, &st, rec, op)
		}
		n := 10 + t.Choose(300, "nops")
		for i := 0; i < n && len(w.Viols) == 0; i++ {
			h.step()
		}
		// concurrent burst: several tasks encrypt for the same partitions at once (same intermediate keys),
		// so that nonce/data-key reuse that needs an interleaving can show
		if len(w.Viols) == 0 && t.Choose(4, "burst") == 1 {
			lp := h.liveProcs()
			if len(lp) > 0 {
				p := lp[0]
				ntask := 2 + t.Choose(3, "burst.tasks")
				per := 20 + t.Choose(80, "burst.per")
				s.RearmPCT(ntask * per * 40)
				var tasks []*simrt.Task
				for ti := 0; ti < ntask; ti++ {
					part := h.parts[ti%len(h.parts)]
					tasks = append(tasks, s.Go("burst", func() {
						se, err := w.Open(p, part)
						if err != nil {
							return
						}
						for k := 0; k < per && !s.Ending() && len(w.Viols) == 0; k++ {
							pl := w.Payload(2)
							rec, op := w.Encrypt(se, pl)
							if rec != nil {
								w.AddSensitivePayload(rec.Payload)
								payloadFP[refimpl.FP(rec.Payload)] = true
								auditEncrypt(w, &st, rec, op)
							}
						}
						w.CloseSess(se)
					}))
				}
				for _, tk := range tasks {
					s.Join(tk)
				}
				w.Drain()
			}
		}
		auditGlobal(w, &st, payloadFP)
		c03Stream = s.RandStream
		for k := range s.RandLog {
			if len(k) == 12 {
				c03Known[k] = true
			}
		}
		if len(c03Stream) > 32<<20 {
			c03Stream = append([]byte(nil), c03Stream[len(c03Stream)-(16<<20):]...)
		}
		nenc := 0
		for _, op := range w.Ops {
			if op.Kind == "encrypt" && op.Err == nil {
				nenc++
			}
		}
		nkeys := 0
		for _, m := range w.Store.Rows {
			nkeys += len(m)
		}
		st.Nontrivial = nenc >= 10 && nkeys >= 2
		st.Class = fmt.Sprintf("%s|keys=%d|%s", h.base.Class(), nkeys, kindsUsed(w))
		st.Sample = map[string]any{"encrypts": nenc, "keys_created": nkeys, "aead_calls": len(w.AEADCalls), "emitted_strings_scanned": w.Emitted, "log_lines": w.LogLines, "history_head": first(h.trace, 12)}
	})
	return finish(s, w, st, true)
}

func first(a []string, n int) []string {
	if len(a) > n {
		return a[:n]
	}
	return a
}

// auditEncrypt checks the envelope structure of one successful encrypt.
func auditEncrypt(w *world.World, st *Stats, rec *world.Rec, op *world.OpRec) {
	count(st.Oracle, "encrypt-structure")
	pfp := refimpl.FP(rec.Payload)
	var payloadCalls, wrapCalls []*world.AEADCall
	for _, c := range w.AEADCalls {
		if c.Op != op || !c.Enc || !c.OK {
			continue
		}
		if c.DataFP == pfp && c.DataLen == len(rec.Payload) {
			payloadCalls = append(payloadCalls, c)
		}
	}
	if len(payloadCalls) != 1 {
		w.Violate("payload-encryptions", "payload-encrypted-not-once", "the payload was handed to the cipher %d times in one encrypt", len(payloadCalls))
		return
	}
	drk := payloadCalls[0].KeyFP
	// the data key is a fresh random secret of this very operation
	var drkSecret *world.SecretRec
	for _, s := range w.Ledger.Secrets {
		if s.FP == drk {
			drkSecret = s
		}
	}
	if drkSecret == nil || !drkSecret.Random || drkSecret.Op != op || drkSecret.Size != 32 {
		w.Violate("data-key-not-fresh", "data-key-not-fresh", "the key that encrypted the payload of op %d is not a 256-bit random secret generated inside that operation (secret: %+v)", op.Idx, drkSecret)
		return
	}
	// ... never used for any other payload encryption
	for _, c := range w.AEADCalls {
		if c.Enc && c.KeyFP == drk && c != payloadCalls[0] {
			w.Violate("data-key-reused", "data-key-reused", "a data key was used for two encryptions (ops %d and %d)", c.Op.Idx, op.Idx)
			return
		}
	}
	// ... and wrapped exactly once, under the intermediate key the record names
	for _, c := range w.AEADCalls {
		if c.Enc && c.OK && c.DataFP == drk && c.DataLen == 32 {
			wrapCalls = append(wrapCalls, c)
		}
	}
	if len(wrapCalls) != 1 {
		w.Violate("data-key-wraps", "data-key-wrapped-not-once", "the data key of op %d was wrapped %d times", op.Idx, len(wrapCalls))
		return
	}
	ik, err := refimpl.UnwrapIK(w.Store.Rows, w.KMS, rec.IKID, rec.IKCreated)
	if err != nil {
		w.Violate("ik-not-persisted", "ik-not-persisted", "record names IK %s@%d which the reference implementation cannot load: %v", rec.IKID, rec.IKCreated, err)
		return
	}
	if wrapCalls[0].KeyFP != refimpl.FP(ik) {
		w.Violate("data-key-wrapped-by-other-key", "data-key-wrapped-by-other-key", "the data key of op %d was wrapped under a key that is not the intermediate key %s@%d named in the record", op.Idx, rec.IKID, rec.IKCreated)
	}
}

// auditGlobal checks uniqueness and the key hierarchy over the whole run.
func auditGlobal(w *world.World, st *Stats, payloadFP map[string]bool) {
	count(st.Oracle, "global-audit")
	pairs := map[string]int{}
	usedNonceOffsets := map[string]bool{}
	for _, c := range w.AEADCalls {
		if !c.Enc || !c.OK {
			continue
		}
		// every nonce is a fresh 12-byte stretch of what the process read from its cryptographic random
		// source (single reads or bulk reads alike), and no stretch serves two encryptions
		count(st.Oracle, "nonce-from-crypto-rand")
		if w.S.RandLog[c.Nonce] == 0 && !c03Known[c.Nonce] && !bytes.Contains(w.S.RandStream, []byte(c.Nonce)) {
			w.Violate("nonce-not-from-crypto-rand", "nonce-not-from-crypto-rand", "a nonce used for an encryption (op %v) is not a stretch of the bytes this process read from crypto/rand", opIdx(c.Op))
			return
		}
		if usedNonceOffsets[c.Nonce] {
			w.Violate("nonce-value-reused", "nonce-value-reused", "the same 12 random bytes served as nonce for two encryptions (op %v)", opIdx(c.Op))
			return
		}
		usedNonceOffsets[c.Nonce] = true
		k := c.KeyFP + "|" + c.Nonce
		pairs[k]++
		if pairs[k] > 1 {
			w.Violate("key-nonce-reuse", "key-nonce-reuse", "the same (key, nonce) pair was used for two encryptions")
			return
		}
	}
	idx := w.KeyPlain() // fp -> name of persisted key
	parentFP := map[string]string{}
	for fp, name := range idx {
		if !strings.HasPrefix(name, "_IK_") {
			continue
		}
		i := strings.LastIndex(name, "@")
		var c int64
		fmt.Sscanf(name[i+1:], "%d", &c)
		row, _ := w.Store.Rows.Get(name[:i], c)
		if row != nil && row.ParentKeyMeta != nil {
			if sk, err := refimpl.UnwrapSK(w.Store.Rows, w.KMS, row.ParentKeyMeta.KeyID, row.ParentKeyMeta.Created); err == nil {
				parentFP[fp] = refimpl.FP(sk)
			}
		}
	}
	for _, c := range w.AEADCalls {
		if !c.Enc || !c.OK {
			continue
		}
		name := idx[c.DataFP]
		switch {
		case strings.HasPrefix(name, "_SK_"):
			w.Violate("sk-encrypted-by-aead", "sk-encrypted-by-aead", "a system key plaintext (%s) was encrypted with the local cipher instead of being handed to the KMS", name)
			return
		case strings.HasPrefix(name, "_IK_"):
			count(st.Oracle, "ik-wrap-parent")
			if want, ok := parentFP[c.DataFP]; ok && c.KeyFP != want {
				w.Violate("ik-wrapped-by-other-key", "ik-wrapped-by-other-key", "intermediate key %s was encrypted under a key that is not the system key its record names", name)
				return
			}
		}
		if payloadFP[c.DataFP] {
			// payload bytes only ever under a random data key (never under an IK/SK)
			if kn := idx[c.KeyFP]; kn != "" {
				w.Violate("payload-under-key-encryption-key", "payload-under-key-encryption-key", "payload bytes were encrypted directly under %s", kn)
				return
			}
		}
	}
	// KMS requests: only system keys (persisted ones, or candidates that were never used for anything else)
	dataKeys := map[string]bool{}
	for _, c := range w.AEADCalls {
		if c.Enc && payloadFP[c.DataFP] {
			dataKeys[c.KeyFP] = true
		}
	}
	for _, req := range w.KMSRequests() {
		count(st.Oracle, "kms-request")
		fp := refimpl.FP(req)
		if name := idx[fp]; strings.HasPrefix(name, "_IK_") {
			w.Violate("non-sk-sent-to-kms", "non-sk-sent-to-kms/IK", "intermediate key %s plaintext was sent to the KMS", name)
			return
		}
		if dataKeys[fp] || payloadFP[fp] {
			w.Violate("non-sk-sent-to-kms", "non-sk-sent-to-kms/data", "a data key or payload was sent to the KMS")
			return
		}
	}
}

func opIdx(op *world.OpRec) int {
	if op == nil {
		return -1
	}
	return op.Idx
}

// runC03KMS: the AWS KMS plugins with failing regions and debug logging on: nothing they log or
// return may contain the system key or the cloud data key in the clear.
func runC03KMS(t *simrt.Tape, o Opts) Outcome {
	n := 1 + t.Choose(4, "nregions")
	pref := t.Choose(n, "preferred")
	wm := t.Choose(1<<n, "wrapmask")
	um := t.Choose(1<<n, "unwrapmask")
	pair := t.Choose(4, "pair")
	cfg := schedCfg(t, o, true)
	var w *world.World
	var st Stats
	s := simrt.Run(t, cfg, func(s *simrt.Sim) {
		w = world.New(s, "C03")
		w.ScanLeaks = true
		logSink.Store(w)
		defer logSink.Store(nil)
		st.Oracle = map[string]int{}
		rnd := simrt.NewRand(uint64(t.Choose(1<<20, "seed")) + 29)
		regions := c17Regions[:n]
		arn := map[string]string{}
		for _, r := range regions {
			arn[r] = "arn:aws:kms:" + r + ":111122223333:key/" + r
		}
		var log []string
		var handed [][]byte
		nodes := map[string]*fakeRegion{}
		for i, r := range regions {
			mk := make([]byte, 32)
			for k := range mk {
				mk[k] = byte(i*37 + k)
			}
			nodes[r] = &fakeRegion{s: s, region: r, arn: arn[r], master: mk, log: &log, handed: &handed, rnd: rnd, onHand: w.AddSensitiveKey}
			if wm>>i&1 == 1 {
				switch t.Choose(3, "failwhat") {
				case 0:
					nodes[r].failGen, nodes[r].failEnc = true, true
				case 1:
					nodes[r].failEnc = true
				case 2:
					nodes[r].failGen = true
				}
			}
		}
		crypto := aead.NewAES256GCM()
		build := func(v2 bool) (appencryption.KeyManagementService, error) {
			if v2 {
				return pluginv2.NewBuilder(crypto, arn).WithPreferredRegion(regions[pref]).WithAWSConfig(aws.Config{}).
					WithKMSFactory(func(cfg aws.Config, _ ...func(*kmsv2.Options)) pluginv2.AWSClient { return fakeV2{nodes[cfg.Region]} }).Build()
			}
			k, err := pluginv1.NewAWS(crypto, regions[pref], arn)
			if err != nil {
				return nil, err
			}
			for i := range k.Clients {
				k.Clients[i].KMS = fakeV1{nodes[k.Clients[i].Region]}
			}
			return k, nil
		}
		wrapper, err := build(pair&1 == 1)
		if err != nil {
			return
		}
		unwrapper, err := build(pair&2 == 2)
		if err != nil {
			return
		}
		sk := make([]byte, 32)
		rnd.Fill(sk)
		w.AddSensitiveKey(sk)
		count(st.Oracle, "kms-plugin-wrap-leak-scan")
		blob, err := wrapper.EncryptKey(context.Background(), append([]byte(nil), sk...))
		if err == nil {
			w.ScanEmitted("kms-envelope", blob)
			for i, r := range regions {
				if um>>i&1 == 1 {
					nodes[r].failDec = true
					nodes[r].wrongPlain = t.Choose(2, "wrongplain") == 1
				}
			}
			count(st.Oracle, "kms-plugin-unwrap-leak-scan")
			if _, derr := unwrapper.DecryptKey(context.Background(), blob); derr != nil {
				w.ScanEmitted("kms-error", []byte(derr.Error()))
			}
		} else {
			w.ScanEmitted("kms-error", []byte(err.Error()))
		}
		st.Nontrivial = wm != 0 || um != 0
		st.Class = fmt.Sprintf("kmsplugins|%d/%d/%d/%d/%d", n, pref, wm, um, pair)
		st.Sample = map[string]any{"mode": "aws-kms-plugins with debug logging", "regions": n, "wrap_failing_mask": wm, "unwrap_failing_mask": um, "log_lines": w.LogLines}
	})
	return finish(s, w, st, true)
}
