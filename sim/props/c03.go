package props

import (
	"fmt"
	"strings"
	"sync/atomic"

	applog "github.com/godaddy/asherah/go/appencryption/pkg/log"
	smlog "github.com/godaddy/asherah/go/securememory/log"

	"verif/sim/refimpl"
	"verif/sim/simrt"
	"verif/sim/world"
)

func init() {
	register(&Property{
		ID:    "C03",
		Level: "exploration",
		Rule: "one case = one simulated history with many encrypts per key (10-300) over 1-6 partitions, rotations by expiry/revocation/peer, restarts and decrypts, debug logging switched on through log.SetLogger; every AEAD call (key fingerprint, nonce, plaintext fingerprint), every KMS request and every byte string that leaves the SDK (records, metastore rows, rendered log lines) is recorded at the seams and audited; " +
			"non-trivial = at least 10 encrypts and one key creation were audited; distinct = distinct (policy class, number of keys created, rotation causes) tuples",
		Run:         runC03,
		QuickSec:    15,
		ThoroughSec: 420,
		Assumptions: []string{
			"'fresh randomness' is checked as: a new draw from the process's random source per data key and per nonce and no repetition; the quality of crypto/rand itself is outside the technique",
			"leak scan looks for raw, hex and base64 (std/url, any alignment) forms of every key plaintext (>=16 bytes) and of every unique payload of at least 16 bytes",
		},
	})
}

// capture loggers are process-global in the SDK; they forward to the world of the running simulation.
var logSink atomic.Pointer[world.World]

type capLogger struct{}

func (capLogger) Debugf(format string, v ...interface{}) {
	if w := logSink.Load(); w != nil {
		w.LogLine(fmt.Sprintf(format, v...))
	}
}

var loggersInstalled bool

func runC03(t *simrt.Tape, o Opts) Outcome {
	if !loggersInstalled {
		applog.SetLogger(capLogger{})
		smlog.SetLogger(capLogger{})
		loggersInstalled = true
	}
	cfg := schedCfg(t, o, false)
	var w *world.World
	var st Stats
	s := simrt.Run(t, cfg, func(s *simrt.Sim) {
		w = world.New(s, "C03")
		w.ScanLeaks = true
		s.RandLog = map[string]int{}
		logSink.Store(w)
		defer logSink.Store(nil)
		st.Oracle = map[string]int{}
		h := &hist{w: w, t: t, parts: world.Partitions[:1+t.Choose(6, "nparts")], maxProc: 2, samePolicyTimes: true}
		h.gen = world.GenOpts{AllowTinyLFU: allowTinyLFU, SmallCaps: t.Choose(3, "smallcaps") == 1}
		h.weights = [opKinds]int{opEncrypt: 20, opDecrypt: 4, opOpen: 2, opCloseSess: 1, opAdvance: 2, opRevoke: 1, opForeignRotate: 1, opRestart: 1, opNewProc: 1}
		h.payloadClasses = []int{2, 3, 0, 1}
		h.newProc()
		payloadFP := map[string]bool{}
		h.hooks.afterEncrypt = func(se *world.Sess, rec *world.Rec, op *world.OpRec) {
			if rec == nil {
				if op.Panic == "" {
					w.Violate("encrypt-failed", "encrypt-failed/no-fault", "encrypt failed: %v", op.Err)
				}
				return
			}
			w.AddSensitivePayload(rec.Payload)
			payloadFP[refimpl.FP(rec.Payload)] = true
			auditEncrypt(w, &st, rec, op)
		}
		n := 10 + t.Choose(300, "nops")
		for i := 0; i < n && len(w.Viols) == 0; i++ {
			h.step()
		}
		auditGlobal(w, &st, payloadFP)
		nenc := 0
		for _, op := range w.Ops {
			if op.Kind == "encrypt" && op.Err == nil {
				nenc++
			}
		}
		nkeys := 0
		for _, m := range w.Store.Rows {
			nkeys += len(m)
		}
		st.Nontrivial = nenc >= 10 && nkeys >= 2
		st.Class = fmt.Sprintf("%s|keys=%d|%s", h.base.Class(), nkeys, kindsUsed(w))
		st.Sample = map[string]any{"encrypts": nenc, "keys_created": nkeys, "aead_calls": len(w.AEADCalls), "emitted_strings_scanned": w.Emitted, "log_lines": w.LogLines, "history_head": first(h.trace, 12)}
	})
	return finish(s, w, st, false)
}

func first(a []string, n int) []string {
	if len(a) > n {
		return a[:n]
	}
	return a
}

// auditEncrypt checks the envelope structure of one successful encrypt.
func auditEncrypt(w *world.World, st *Stats, rec *world.Rec, op *world.OpRec) {
	count(st.Oracle, "encrypt-structure")
	pfp := refimpl.FP(rec.Payload)
	var payloadCalls, wrapCalls []*world.AEADCall
	for _, c := range w.AEADCalls {
		if c.Op != op || !c.Enc || !c.OK {
			continue
		}
		if c.DataFP == pfp && c.DataLen == len(rec.Payload) {
			payloadCalls = append(payloadCalls, c)
		}
	}
	if len(payloadCalls) != 1 {
		w.Violate("payload-encryptions", "payload-encrypted-not-once", "the payload was handed to the cipher %d times in one encrypt", len(payloadCalls))
		return
	}
	drk := payloadCalls[0].KeyFP
	// the data key is a fresh random secret of this very operation
	var drkSecret *world.SecretRec
	for _, s := range w.Ledger.Secrets {
		if s.FP == drk {
			drkSecret = s
		}
	}
	if drkSecret == nil || !drkSecret.Random || drkSecret.Op != op || drkSecret.Size != 32 {
		w.Violate("data-key-not-fresh", "data-key-not-fresh", "the key that encrypted the payload of op %d is not a 256-bit random secret generated inside that operation (secret: %+v)", op.Idx, drkSecret)
		return
	}
	// ... never used for any other payload encryption
	for _, c := range w.AEADCalls {
		if c.Enc && c.KeyFP == drk && c != payloadCalls[0] {
			w.Violate("data-key-reused", "data-key-reused", "a data key was used for two encryptions (ops %d and %d)", c.Op.Idx, op.Idx)
			return
		}
	}
	// ... and wrapped exactly once, under the intermediate key the record names
	for _, c := range w.AEADCalls {
		if c.Enc && c.OK && c.DataFP == drk && c.DataLen == 32 {
			wrapCalls = append(wrapCalls, c)
		}
	}
	if len(wrapCalls) != 1 {
		w.Violate("data-key-wraps", "data-key-wrapped-not-once", "the data key of op %d was wrapped %d times", op.Idx, len(wrapCalls))
		return
	}
	ik, err := refimpl.UnwrapIK(w.Store.Rows, w.KMS, rec.IKID, rec.IKCreated)
	if err != nil {
		w.Violate("ik-not-persisted", "ik-not-persisted", "record names IK %s@%d which the reference implementation cannot load: %v", rec.IKID, rec.IKCreated, err)
		return
	}
	if wrapCalls[0].KeyFP != refimpl.FP(ik) {
		w.Violate("data-key-wrapped-by-other-key", "data-key-wrapped-by-other-key", "the data key of op %d was wrapped under a key that is not the intermediate key %s@%d named in the record", op.Idx, rec.IKID, rec.IKCreated)
	}
}

// auditGlobal checks uniqueness and the key hierarchy over the whole run.
func auditGlobal(w *world.World, st *Stats, payloadFP map[string]bool) {
	count(st.Oracle, "global-audit")
	pairs := map[string]int{}
	nonceUses := map[string]int{}
	for _, c := range w.AEADCalls {
		if !c.Enc || !c.OK {
			continue
		}
		// every nonce is a fresh 12-byte draw from the process's cryptographic random source
		count(st.Oracle, "nonce-from-crypto-rand")
		nonceUses[c.Nonce]++
		if w.S.RandLog[c.Nonce] == 0 {
			w.Violate("nonce-not-from-crypto-rand", "nonce-not-from-crypto-rand", "a nonce used for an encryption (op %v) was not drawn from crypto/rand: no %d-byte read of the random source produced it", opIdx(c.Op), len(c.Nonce))
			return
		}
		if nonceUses[c.Nonce] > w.S.RandLog[c.Nonce] {
			w.Violate("nonce-draw-reused", "nonce-draw-reused", "one draw from the random source served as nonce for two encryptions")
			return
		}
		k := c.KeyFP + "|" + c.Nonce
		pairs[k]++
		if pairs[k] > 1 {
			w.Violate("key-nonce-reuse", "key-nonce-reuse", "the same (key, nonce) pair was used for two encryptions")
			return
		}
	}
	idx := w.KeyPlain() // fp -> name of persisted key
	parentFP := map[string]string{}
	for fp, name := range idx {
		if !strings.HasPrefix(name, "_IK_") {
			continue
		}
		i := strings.LastIndex(name, "@")
		var c int64
		fmt.Sscanf(name[i+1:], "%d", &c)
		row, _ := w.Store.Rows.Get(name[:i], c)
		if row != nil && row.ParentKeyMeta != nil {
			if sk, err := refimpl.UnwrapSK(w.Store.Rows, w.KMS, row.ParentKeyMeta.KeyID, row.ParentKeyMeta.Created); err == nil {
				parentFP[fp] = refimpl.FP(sk)
			}
		}
	}
	for _, c := range w.AEADCalls {
		if !c.Enc || !c.OK {
			continue
		}
		name := idx[c.DataFP]
		switch {
		case strings.HasPrefix(name, "_SK_"):
			w.Violate("sk-encrypted-by-aead", "sk-encrypted-by-aead", "a system key plaintext (%s) was encrypted with the local cipher instead of being handed to the KMS", name)
			return
		case strings.HasPrefix(name, "_IK_"):
			count(st.Oracle, "ik-wrap-parent")
			if want, ok := parentFP[c.DataFP]; ok && c.KeyFP != want {
				w.Violate("ik-wrapped-by-other-key", "ik-wrapped-by-other-key", "intermediate key %s was encrypted under a key that is not the system key its record names", name)
				return
			}
		}
		if payloadFP[c.DataFP] {
			// payload bytes only ever under a random data key (never under an IK/SK)
			if kn := idx[c.KeyFP]; kn != "" {
				w.Violate("payload-under-key-encryption-key", "payload-under-key-encryption-key", "payload bytes were encrypted directly under %s", kn)
				return
			}
		}
	}
	// KMS requests: only system keys (persisted ones, or candidates that were never used for anything else)
	dataKeys := map[string]bool{}
	for _, c := range w.AEADCalls {
		if c.Enc && payloadFP[c.DataFP] {
			dataKeys[c.KeyFP] = true
		}
	}
	for _, req := range w.KMSRequests() {
		count(st.Oracle, "kms-request")
		fp := refimpl.FP(req)
		if name := idx[fp]; strings.HasPrefix(name, "_IK_") {
			w.Violate("non-sk-sent-to-kms", "non-sk-sent-to-kms/IK", "intermediate key %s plaintext was sent to the KMS", name)
			return
		}
		if dataKeys[fp] || payloadFP[fp] {
			w.Violate("non-sk-sent-to-kms", "non-sk-sent-to-kms/data", "a data key or payload was sent to the KMS")
			return
		}
	}
}

func opIdx(op *world.OpRec) int {
	if op == nil {
		return -1
	}
	return op.Idx
}
