package props

import (
	"context"
	"fmt"
	"strings"
	"time"

	"github.com/aws/aws-sdk-go-v2/aws"
	kmsv2 "github.com/aws/aws-sdk-go-v2/service/kms"
	"github.com/godaddy/asherah/go/appencryption"
	"github.com/godaddy/asherah/go/appencryption/pkg/crypto/aead"
	pluginv1 "github.com/godaddy/asherah/go/appencryption/plugins/aws-v1/kms"
	pluginv2 "github.com/godaddy/asherah/go/appencryption/plugins/aws-v2/kms"

	"verif/sim/simrt"
	"verif/sim/world"
)

func init() {
	register(&Property{
		ID:    "C10",
		Level: "exploration",
		Rule: "one case = either (a) one simulated history (encrypt/decrypt on cache hit and miss, duplicate-key fallback, rotation, restart) over a real SessionFactory using a REAL secure-memory factory (protectedmemory or memguard) behind a retaining wrapper, with failures injected after the plaintext exists (secret-factory failure, AEAD failure of the next layer, metastore/KMS errors), or (b) one wrap/unwrap of a system key through the AWS KMS plugins (v1, v2) over fake regional KMS nodes with failing regions; the simulated KMS, the AEAD spy, the fake cloud KMS and the factory wrapper retain every heap slice in which they handed out or received key plaintext and re-read it when the public call has returned; " +
			"non-trivial = at least one key-unwrapping step happened inside an operation in which a fault fired, or a cloud-KMS unwrap succeeded; distinct = distinct (mode, policy class / region setup, buffer sources seen, faults fired) tuples",
		Run:         runC10,
		QuickSec:    15,
		ThoroughSec: 420,
		Assumptions: []string{
			"only ordinary Go heap slices visible at the seams are covered: copies inside crypto/aes key schedules, registers or memory moved by the garbage collector are outside the technique",
		},
	})
}

// runC10Factory: the secure-memory factories themselves. "The underlying array will be wiped after the
// function exits" (SecretFactory.New): the heap buffer handed to New is zero when New returns, whichever
// memory-management step failed inside it.
func runC10Factory(t *simrt.Tape, o Opts) Outcome {
	which := t.Choose(2, "impl")
	k := t.Choose(6, "call")
	size := secretSizes[t.Choose(len(secretSizes), "size")]
	cfg := schedCfg(t, o, false)
	var st Stats
	st.Oracle = map[string]int{}
	st.Faults = map[string]int{}
	var viols []world.Violation
	implName, fired := "", ""
	s := simrt.Run(t, cfg, func(s *simrt.Sim) {
		im := mkImpl(s, which)
		implName = im.name
		rnd := simrt.NewRand(uint64(t.Choose(1<<20, "seed")) + 29)
		src := make([]byte, size)
		rnd.Fill(src)
		for i := range src {
			src[i] |= 1 // no zero byte: "wiped" is unambiguous
		}
		im.spy.FailAt = len(im.spy.Calls) + k
		sec, err := im.factory.New(src)
		im.spy.Off = true
		fired = strings.Join(im.spy.Fired, ",")
		if fired != "" {
			st.Faults["memcall:"+strings.SplitN(fired, "#", 2)[0]]++
		}
		count(st.Oracle, "factory-argument-zero")
		for _, b := range src {
			if b != 0 {
				outcome := "succeeded"
				if err != nil {
					outcome = "failed: " + err.Error()
				}
				viols = append(viols, world.Violation{Prop: "C10", Rule: "factory-argument-left", Signature: "C10/factory-argument-not-wiped/" + im.name + "/" + strings.SplitN(fired+"#", "#", 2)[0],
					Msg: fmt.Sprintf("%s SecretFactory.New(%d bytes) %s (injected: [%s]) and the heap buffer it was handed still holds the key", im.name, size, outcome, fired)})
				break
			}
		}
		if err == nil && sec != nil {
			sec.Close()
		}
	})
	out := Outcome{Viols: viols}
	st.Nontrivial = fired != ""
	st.Class = fmt.Sprintf("factory|%s|%d|%s", implName, size, fired)
	st.Sample = map[string]any{"mode": "secret-factory", "implementation": implName, "size": size, "fault": fired}
	fo := finish(s, nil, st, true)
	out.Stats, out.Infra, out.Log = fo.Stats, fo.Infra, fo.Log
	out.Stats.Faults = st.Faults
	if f := s.Failure(); f != nil && len(out.Viols) == 0 && (f.Kind == simrt.FailDeadlock || f.Kind == simrt.FailPanic) {
		out.Infra = nil
		out.Viols = append(out.Viols, world.Violation{Prop: "C10", Rule: string(f.Kind), Signature: "C10/" + string(f.Kind), Msg: f.Msg})
	}
	return out
}

func runC10(t *simrt.Tape, o Opts) Outcome {
	mode := t.Choose(4, "mode") // 0-2: world history, 3: cloud KMS plugins
	if mode == 3 {
		return runC10KMS(t, o)
	}
	if t.Choose(6, "mode.secret-factory") == 1 {
		return runC10Factory(t, o)
	}
	cfg := schedCfg(t, o, false)
	var w *world.World
	var st Stats
	s := simrt.Run(t, cfg, func(s *simrt.Sim) {
		w = world.New(s, "C10")
		w.RetainBuffers = true
		w.RealSecrets = 1 + t.Choose(2, "realfactory")
		st.Oracle = map[string]int{}
		h := &hist{w: w, t: t, parts: world.Partitions[:1+t.Choose(3, "nparts")], maxProc: 2, samePolicyTimes: true}
		h.gen = world.GenOpts{AllowTinyLFU: allowTinyLFU, SmallCaps: t.Choose(2, "smallcaps") == 1}
		h.weights = [opKinds]int{opEncrypt: 8, opDecrypt: 8, opOpen: 2, opCloseSess: 2, opAdvance: 2, opRevoke: 1, opForeignRotate: 1, opRestart: 1, opNewProc: 1}
		h.payloadClasses = []int{2, 0}
		if t.Choose(5, "large-payloads") == 1 {
			// rows beyond the sizes at which implementations switch strategies (64 KiB, 1 MiB)
			h.payloadClasses = []int{6, 2, 5, 6}
		}
		if t.Choose(4, "clock-skew") == 1 {
			// hosts whose clocks disagree (keys stamped "in the future" or long ago for the reader)
			w.ClockSkews = []time.Duration{0, 90 * time.Second, -90 * time.Second, 10 * time.Minute, -10 * time.Minute, 2 * time.Hour, -2 * time.Hour}
		}
		h.newProc()
		faulty := t.Choose(3, "faulty") != 0
		if faulty {
			enableRandomFaults(w, t, []string{"ms.err", "ms.falsedup", "ms.race", "kms.err", "aead.err", "alloc.err"}, h.base.Expire, h.base.Revoke)
			w.Faults.Kinds["alloc.err"] = true
			w.Faults.Kinds["aead.err"] = true
			w.Faults.Kinds["ctx.cancel"] = t.Choose(2, "ctx.cancel") == 1
			// re-protecting a key's pages after it was used can fail (mprotect): the access then reports
			// an error although its callback produced a result
			w.Faults.Kinds["release.err"] = t.Choose(2, "release.err") == 1
			// the application's AEAD panics while it holds the data row key's heap copy: the copy is
			// wiped although the call unwinds ("decryptRow defers MemClr(rawDrk)")
			w.Faults.Kinds["aead.panic"] = t.Choose(2, "aead.panic") == 1
		}
		checked := 0
		sources := map[string]bool{}
		unwrapUnderFault := false
		check := func(op *world.OpRec) {
			for _, r := range w.Retained[checked:] {
				count(st.Oracle, "retained-buffer-zero")
				sources[r.Src] = true
				if r.Op != nil && r.Op.Faulted > 0 {
					unwrapUnderFault = true
				}
				for _, b := range r.Buf {
					if b != 0 {
						opd := "a background task"
						if r.Op != nil {
							opd = fmt.Sprintf("%s op %d (faults %v, result err=%v)", r.Op.Kind, r.Op.Idx, r.Op.FaultDesc, r.Op.Err != nil)
						}
						w.Violate("plaintext-key-left-on-heap", "plaintext-key-left-on-heap/"+r.Src+"/"+map[bool]string{true: "failed-op", false: "ok-op"}[r.Op != nil && r.Op.Err != nil], "a heap buffer that held plaintext key material (%s, %d bytes) is not zeroed after %s returned", r.Src, len(r.Buf), opd)
						break
					}
				}
			}
			checked = len(w.Retained)
		}
		h.hooks.afterEncrypt = func(se *world.Sess, rec *world.Rec, op *world.OpRec) { check(op) }
		h.hooks.afterDecrypt = func(se *world.Sess, rec *world.Rec, out []byte, op *world.OpRec) { check(op) }
		n := 5 + t.Choose(40, "nops")
		for i := 0; i < n && len(w.Viols) == 0; i++ {
			h.step()
		}
		w.Faults.Off = true
		for _, p := range w.Procs {
			w.CloseProc(p)
		}
		st.Nontrivial = unwrapUnderFault
		st.Class = fmt.Sprintf("world|%s|%v|%v|real=%d", h.base.Class(), keysOf(sources), faultKinds(w), w.RealSecrets)
		st.Sample = map[string]any{"mode": "history", "secure_memory": []string{"", "protectedmemory", "memguard"}[w.RealSecrets], "buffer_sources": keysOf(sources), "buffers_checked": checked, "history": first(h.trace, 15)}
	})
	return finish(s, w, st, true)
}

// runC10KMS: wrap and unwrap through the AWS plugins; the fake regional nodes retain the data key plaintexts.
func runC10KMS(t *simrt.Tape, o Opts) Outcome {
	n := 1 + t.Choose(4, "nregions")
	pref := t.Choose(n, "preferred")
	wm := t.Choose(1<<n, "wrapmask")
	um := t.Choose(1<<n, "unwrapmask")
	pair := t.Choose(4, "pair")
	cfg := schedCfg(t, o, true)
	var st Stats
	st.Oracle = map[string]int{}
	st.Faults = map[string]int{}
	var viols []world.Violation
	violate := func(sig, format string, a ...any) {
		if len(viols) == 0 {
			viols = append(viols, world.Violation{Prop: "C10", Rule: sig, Signature: "C10/" + sig, Msg: fmt.Sprintf(format, a...)})
		}
	}
	unwrapped := false
	s := simrt.Run(t, cfg, func(s *simrt.Sim) {
		rnd := simrt.NewRand(uint64(t.Choose(1<<20, "seed")) + 17)
		regions := c17Regions[:n]
		arn := map[string]string{}
		for _, r := range regions {
			arn[r] = "arn:aws:kms:" + r + ":111122223333:key/" + r
		}
		var log []string
		var handed [][]byte
		nodes := map[string]*fakeRegion{}
		for i, r := range regions {
			mk := make([]byte, 32)
			for k := range mk {
				mk[k] = byte(i*37 + k)
			}
			nodes[r] = &fakeRegion{s: s, region: r, arn: arn[r], master: mk, log: &log, handed: &handed, rnd: rnd}
		}
		crypto := &flakyAEAD{AEAD: aead.NewAES256GCM()}
		build := func(v2 bool, arn map[string]string) (appencryption.KeyManagementService, error) {
			if v2 {
				return pluginv2.NewBuilder(crypto, arn).WithPreferredRegion(regions[pref]).WithAWSConfig(aws.Config{}).
					WithKMSFactory(func(cfg aws.Config, _ ...func(*kmsv2.Options)) pluginv2.AWSClient { return fakeV2{nodes[cfg.Region]} }).Build()
			}
			k, err := pluginv1.NewAWS(crypto, regions[pref], arn)
			if err != nil {
				return nil, err
			}
			for i := range k.Clients {
				k.Clients[i].KMS = fakeV1{nodes[k.Clients[i].Region]}
			}
			return k, nil
		}
		wrapper, err := build(pair&1 == 1, arn)
		if err != nil {
			return
		}
		// the reader's configuration may have been re-pointed at a new master key in some regions
		// while the old key still exists there (and still answers for ciphertexts made under it)
		arnNow := arn
		if t.Choose(3, "reconfigured") == 1 {
			arnNow = map[string]string{}
			for _, r := range regions {
				arnNow[r] = arn[r]
				if t.Choose(2, "reconfigured.region") == 1 {
					st.Faults["reader.master-key-arn-re-pointed"]++
					arnNow[r] = arn[r] + "-2"
				}
			}
		}
		unwrapper, err := build(pair&2 == 2, arnNow)
		if err != nil {
			return
		}
		sk := make([]byte, 32)
		rnd.Fill(sk)
		desc := fmt.Sprintf("regions=%v preferred=%s wrap-failing=%04b unwrap-failing=%04b wrap=v%d unwrap=v%d", regions, regions[pref], wm, um, 1+pair&1, 1+(pair>>1)&1)
		zero := func(what string) {
			for _, h := range handed {
				count(st.Oracle, "cloud-kms-data-key-zero")
				for _, b := range h {
					if b != 0 {
						violate("cloud-kms-data-key-left-on-heap/"+what, "%s: the plaintext data key obtained from the cloud KMS is not zeroed when %s has returned", desc, what)
						return
					}
				}
			}
			handed = nil
		}
		for i, r := range regions {
			if wm>>i&1 == 1 {
				st.Faults["region.fails-at-wrap"]++
				switch t.Choose(3, "failwhat") {
				case 0:
					nodes[r].failGen, nodes[r].failEnc = true, true
				case 1:
					nodes[r].failEnc = true
				case 2:
					nodes[r].failGen = true
				}
			}
		}
		if t.Choose(2, "slow-regions") == 1 {
			for _, r := range regions {
				nodes[r].lat = regionLatencies[t.Choose(len(regionLatencies), "region.latency")]
				if nodes[r].lat > 0 {
					st.Faults["region.slow"]++
				}
			}
		}
		// the local encryption of the system key under the fresh data key can fail after the data key
		// exists: the wrap fails, the data key is wiped all the same
		if t.Choose(8, "aead-fails") == 1 {
			crypto.failEncrypt = true
			st.Faults["aead.local-encrypt-fails"]++
		}
		blob, err := wrapper.EncryptKey(context.Background(), sk)
		zero("EncryptKey")
		// answers that arrive after the call gave up on them are data keys too
		s.Advance(2 * time.Minute)
		s.Idle()
		zero("EncryptKey (late regional answers included)")
		if err != nil || len(viols) > 0 {
			return
		}
		for i, r := range regions {
			if um>>i&1 == 1 {
				st.Faults["region.fails-at-unwrap"]++
				nodes[r].failDec = true
				nodes[r].wrongPlain = t.Choose(2, "wrongplain") == 1
			}
		}
		_, derr := unwrapper.DecryptKey(context.Background(), blob)
		unwrapped = derr == nil
		zero("DecryptKey")
		s.Advance(2 * time.Minute)
		s.Idle()
		zero("DecryptKey (late regional answers included)")
	})
	out := Outcome{Viols: viols}
	st.Nontrivial = unwrapped
	st.Class = fmt.Sprintf("kms|%d/%d/%d/%d/%d", n, pref, wm, um, pair)
	st.Sample = map[string]any{"mode": "aws-kms-plugins", "regions": n, "wrap_failing_mask": wm, "unwrap_failing_mask": um, "plugins": pair}
	fo := finish(s, nil, st, true)
	out.Stats, out.Infra, out.Log = fo.Stats, fo.Infra, fo.Log
	if f := s.Failure(); f != nil && len(out.Viols) == 0 && (f.Kind == simrt.FailDeadlock || f.Kind == simrt.FailPanic) {
		out.Infra = nil
		out.Viols = append(out.Viols, world.Violation{Prop: "C10", Rule: string(f.Kind), Signature: "C10/" + string(f.Kind), Msg: f.Msg})
	}
	return out
}
