package props

import (
	"bytes"
	"fmt"
	"strings"
	"time"

	"github.com/godaddy/asherah/go/appencryption"

	"verif/sim/refimpl"
	"verif/sim/simrt"
	"verif/sim/world"
)

func init() {
	register(&Property{
		ID:    "C06",
		Level: "exploration",
		Rule: "one case = one simulated history over 2-4 partitions whose ids are drawn from an adversarial grammar over {a, b, _, <service>, <product>, <region suffix>, _IK_, digits} (so that pairs like 'a' / 'a_<service>_<product>' arise), with or without a region-suffixing metastore, per-session or shared IK caches, the foreign key cached or not: every record of partition Q is offered to a session of every other partition P; " +
			"non-trivial = at least one cross-partition decrypt was attempted with the foreign IK reachable (in the store or the shared cache); distinct = distinct (suffix on/off, cache kind, relation between the two ids: prefix / suffix / embeds-service / unrelated) tuples",
		Run:         runC06,
		QuickSec:    12,
		ThoroughSec: 300,
		Assumptions: []string{"same service and product for all partitions; the schedule/fault dimension adds little here: the deciding power is the id grammar and the cache states reached by the histories (see DESIGN.md §7)"},
	})
	register(&Property{
		ID:    "C07",
		Level: "exploration",
		Rule: "one case = one simulated history that first produces genuine records (1-3 partitions, rotations), then applies storage/transit corruption faults at tape-chosen moments relative to cache state: single-bit flips and truncations of Data and of the encrypted data key, field splices between genuine records, structural damage (nil Key / nil ParentKeyMeta / empty slices), arbitrary generated records, and corrupted metastore rows (flipped key bytes, wrong / missing / nil ParentKeyMeta, mismatched Created, dropped rows); in the thorough tier every single-bit flip and every truncation length of a <=64-byte record is swept; " +
			"non-trivial = the corrupted object reached the cipher or the key loader (not rejected by the first nil guard); distinct = distinct (corruption kind, target field, cache state) tuples",
		Run:         runC07,
		Sweep:       sweepC07,
		QuickSec:    15,
		ThoroughSec: 420,
		Assumptions: []string{"a decode error of a corrupted metastore document is reported by the simulated back end as a load error (as a real driver would)", "success is judged against the payload of the genuine record whose Data bytes are presented"},
	})
}

// ---------------------------------------------------------------------------------------------
// C06

func partitionGrammar(t *simrt.Tape, service, product, suffix string) []string {
	atoms := []string{"a", "b", "_", service, product, "_" + service + "_" + product, "_IK_", "1", "0", suffix, "a_" + service + "_" + product, "%s", "%", "/"}
	mk := func() string {
		n := 1 + t.Choose(3, "part.len")
		var sb strings.Builder
		for i := 0; i < n; i++ {
			sb.WriteString(atoms[t.Choose(len(atoms), "part.atom")])
		}
		if sb.Len() == 0 {
			return "a"
		}
		return sb.String()
	}
	base := mk()
	out := []string{base}
	// very long ids that differ only in their last bytes (key ids longer than a VARCHAR(255) column)
	if t.Choose(4, "part.long") == 1 {
		long := strings.Repeat("org-unit-0123456789/", 12+t.Choose(4, "part.long.len"))
		out = append(out, long+"alice", long+"bob")
	}
	// derived ids that collide structurally with base
	derived := []string{
		base + "_" + service + "_" + product,
		base + "_" + service,
		base + "_",
		base + "_" + service + "_" + product + "_" + suffix,
		"_" + base,
		base + base,
		strings.ToUpper(base),
		strings.ToUpper(base[:1]) + base[1:],
		strings.TrimSpace(base + " "),
		base + " ",
	}
	n := 1 + t.Choose(3, "part.n")
	for i := 0; i < n; i++ {
		var p string
		if t.Choose(3, "part.derived") != 0 {
			p = derived[t.Choose(len(derived), "part.which")]
		} else {
			p = mk()
		}
		dup := false
		for _, o := range out {
			if o == p {
				dup = true
			}
		}
		if !dup && p != "" {
			out = append(out, p)
		}
	}
	return out
}

func relation(p, q string) string {
	switch {
	case strings.HasPrefix(q, p):
		return "q-extends-p"
	case strings.HasPrefix(p, q):
		return "p-extends-q"
	case strings.HasSuffix(q, p) || strings.HasSuffix(p, q):
		return "suffix"
	case strings.Contains(q, p) || strings.Contains(p, q):
		return "embeds"
	}
	return "unrelated"
}

func runC06(t *simrt.Tape, o Opts) Outcome {
	concurrentPhase := t.Choose(3, "concurrent-phase") == 1
	cfg := schedCfg(t, o, concurrentPhase)
	var w *world.World
	var st Stats
	s := simrt.Run(t, cfg, func(s *simrt.Sim) {
		w = world.New(s, "C06")
		st.Oracle = map[string]int{}
		suffixOn := t.Choose(2, "suffix") == 1
		if suffixOn {
			w.Suffix = []string{"us-west-2", "r1", "prod"}[t.Choose(3, "suffix.which")]
		}
		// service and product names vary too (equal names make key ids most ambiguous)
		names := [][2]string{{"svc", "prod"}, {"app", "app"}, {"a", "b"}, {"svc_x", "prod"}}
		nm := names[t.Choose(len(names), "names")]
		w.Service, w.Product = nm[0], nm[1]
		pol := world.GenPolicy(t, world.GenOpts{AllowTinyLFU: allowTinyLFU})
		p := w.NewProc(pol)
		// a mixed deployment: some records were written by a process whose metastore does not suffix key ids
		var legacy *world.Proc
		if suffixOn && t.Choose(2, "legacy-writer") == 1 {
			w.NextProcUnsuffixed = true
			legacy = w.NewProc(pol)
			w.NextProcUnsuffixed = false
		}
		parts := partitionGrammar(t, w.Service, w.Product, "us-west-2")
		// empty partition ids are refused
		count(st.Oracle, "empty-partition-refused")
		if se, err := w.Open(p, ""); err == nil && se != nil {
			w.Violate("empty-partition-accepted", "empty-partition-accepted", "GetSession(\"\") returned a session")
		}
		sess := map[string]*world.Sess{}
		for _, part := range parts {
			se, err := w.Open(p, part)
			if err != nil {
				continue
			}
			sess[part] = se
			nrec := 1 + t.Choose(2, "nrec")
			for i := 0; i < nrec; i++ {
				w.Encrypt(se, w.Payload(2))
			}
			if legacy != nil {
				if lse, err := w.Open(legacy, part); err == nil {
					w.Encrypt(lse, w.Payload(2))
				}
			}
		}
		classes := map[string]bool{}
		attempted := false
		// session churn: a caller that closes a session twice (a defer plus an error path); afterwards
		// all partitions get fresh sessions that are alive together
		churned := false
		if !pol.SessionCache && t.Choose(3, "double-close") == 1 {
			for _, part := range sortedKeysSess(sess) {
				if t.Choose(2, "double-close.this") == 1 {
					w.CloseSessAgain(sess[part])
					churned = true
				}
			}
		}
		// optionally drop caches (fresh sessions) so that the foreign IK is loaded from the store
		if churned || t.Choose(2, "fresh") == 1 {
			for _, part := range sortedKeysSess(sess) {
				if se, err := w.Open(p, part); err == nil {
					sess[part] = se
				}
			}
		}
		for _, rec := range w.Recs {
			for _, part := range sortedKeysSess(sess) {
				se := sess[part]
				if part == rec.Part {
					continue
				}
				attempted = true
				count(st.Oracle, "foreign-decrypt")
				out, op := w.Decrypt(se, &rec.DRR)
				legacyRec := legacy != nil && rec.Proc == legacy.ID
				classes[fmt.Sprintf("suffix=%v/%s/%s/legacy=%v/%s", suffixOn, cacheKind(pol), relation(part, rec.Part), legacyRec, w.Service+"."+w.Product)] = true
				if op.Panic == "" && op.Err == nil {
					w.Violate("foreign-decrypt-ok", fmt.Sprintf("foreign-decrypt-ok/suffix=%v/%s/legacy-record=%v/same-service-product=%v", suffixOn, relation(part, rec.Part), legacyRec, w.Service == w.Product), "a session for partition %q decrypted a record of partition %q (key id %s) and returned %d bytes (equal to the original: %v)", part, rec.Part, rec.IKID, len(out), bytes.Equal(out, rec.Payload))
				}
			}
		}
		// several request handlers ask for sessions of different partitions at the same moment: each gets
		// a session bound to the partition it asked for
		if concurrentPhase && len(w.Viols) == 0 {
			pool := []string{"tenant-1", "tenant-12", "tenant-3", "tenant-7", "Tenant-1", "t", "tenant-10", "tenant-11", "tenant-2", "tenant-21", "tenant-4", "tenant-5", "tenant-6", "tenant-8", "tenant-9", "u1", "u2", "u3", "u4", "u5"}
			n := 2 + t.Choose(4, "conc.sessions")
			start := t.Choose(len(pool), "conc.start")
			repeatIDs := t.Choose(3, "conc.repeat-ids") == 1
			type got struct {
				part string
				se   *world.Sess
				rec  *world.Rec
			}
			res := make([]got, n)
			var tasks []*simrt.Task
			for i := 0; i < n; i++ {
				i := i
				// distinct ids, or (a third of the time) the same few ids requested by several handlers at once
				part := pool[(start+i*[]int{1, 3, 7}[t.Choose(3, "conc.step")])%len(pool)]
				if repeatIDs {
					part = pool[(start+t.Choose(2, "conc.which"))%len(pool)]
				}
				res[i].part = part
				tasks = append(tasks, s.Go("handler", func() {
					se, err := w.Open(p, part)
					if err != nil {
						return
					}
					res[i].se = se
					res[i].rec, _ = w.Encrypt(se, w.Payload(2))
				}))
			}
			for _, tk := range tasks {
				s.Join(tk)
			}
			for _, g := range res {
				if g.rec == nil || len(w.Viols) > 0 {
					continue
				}
				count(st.Oracle, "concurrent-session-binding")
				if g.rec.IKID != w.IKID(g.part) {
					w.Violate("session-bound-elsewhere", "session-bound-to-other-partition/concurrent-get-session", "GetSession(%q), called while other partitions' sessions were being opened, returned a session that writes under key id %s (expected %s)", g.part, g.rec.IKID, w.IKID(g.part))
				}
				for _, h := range res {
					if h.se == nil || h.part == g.part || len(w.Viols) > 0 {
						continue
					}
					attempted = true
					count(st.Oracle, "foreign-decrypt")
					if out, op := w.Decrypt(h.se, &g.rec.DRR); op.Panic == "" && op.Err == nil {
						w.Violate("foreign-decrypt-ok", "foreign-decrypt-ok/concurrent-get-session", "the session handed out for partition %q decrypted a record of partition %q (%d bytes)", h.part, g.part, len(out))
					}
				}
			}
			// the same attempts with every handler at work at once: each presents the others' records to
			// its own session while those sessions read their own
			tasks = tasks[:0]
			for _, h := range res {
				h := h
				if h.se == nil || len(w.Viols) > 0 {
					continue
				}
				tasks = append(tasks, s.Go("reader", func() {
					for _, g := range res {
						if g.rec == nil || s.Ending() {
							continue
						}
						out, op := w.Decrypt(h.se, &g.rec.DRR)
						if op.Panic != "" {
							return
						}
						count(st.Oracle, "foreign-decrypt-concurrent")
						if g.part != h.part && op.Err == nil {
							w.Violate("foreign-decrypt-ok", "foreign-decrypt-ok/concurrent-readers", "while other sessions were reading, the session of partition %q decrypted a record of partition %q (%d bytes)", h.part, g.part, len(out))
						}
						if g.part == h.part && (op.Err != nil || !bytes.Equal(out, g.rec.Payload)) {
							w.Violate("own-decrypt-failed", "own-decrypt-failed/concurrent-readers", "while other sessions were reading, partition %q could not decrypt its own record: %v", h.part, op.Err)
						}
					}
				}))
			}
			for _, tk := range tasks {
				s.Join(tk)
			}
		}
		// own records still decrypt
		for _, rec := range w.Recs {
			if se := sess[rec.Part]; se != nil {
				out, op := w.Decrypt(se, &rec.DRR)
				if op.Panic == "" && (op.Err != nil || !bytes.Equal(out, rec.Payload)) {
					w.Violate("own-decrypt-failed", "own-decrypt-failed", "partition %q cannot decrypt its own record: %v", rec.Part, op.Err)
				}
			}
		}
		st.Nontrivial = attempted
		st.Class = fmt.Sprint(keysOf(classes))
		st.Sample = map[string]any{"partitions": parts, "suffix": w.Suffix, "policy": pol.String()}
	})
	return finish(s, w, st, true)
}

// ---------------------------------------------------------------------------------------------
// C07

const (
	corFlipData = iota
	corFlipKey
	corTruncData
	corTruncKey
	corSplice
	corStructural
	corArbitrary
	corRowFlip
	corRowParent
	corRowDrop
	corRowNilParent
	corRowCreated
	corRepeat
	corKinds
)

var corNames = [...]string{"flip-data", "flip-key", "trunc-data", "trunc-key", "splice", "structural", "arbitrary", "row-flip-key", "row-wrong-parent", "row-drop", "row-nil-parent", "row-created-mismatch", "genuine-presented-twice"}

// sweepC07 enumerates, in the thorough tier, every single-bit flip and truncation of a 16-byte-payload record.
func sweepC07(tier string) [][]uint32 {
	var out [][]uint32
	dataLen := 16 + 16 + 12 // payload + tag + nonce
	keyLen := 32 + 16 + 12
	add := func(kind, pos int) { out = append(out, []uint32{1, uint32(kind), uint32(pos)}) }
	step := 1
	if tier != "thorough" {
		step = 7
	}
	for b := 0; b < dataLen*8; b += step {
		add(corFlipData, b)
	}
	for b := 0; b < keyLen*8; b += step {
		add(corFlipKey, b)
	}
	for n := 0; n < dataLen; n += 1 {
		add(corTruncData, n)
	}
	for n := 0; n < keyLen; n += 1 {
		add(corTruncKey, n)
	}
	return out
}

func runC07(t *simrt.Tape, o Opts) Outcome {
	cfg := schedCfg(t, o, false)
	var w *world.World
	var st Stats
	swept := t.Choose(2, "mode.sweep") == 1
	kind := t.Choose(corKinds, "cor.kind")
	pos := t.Choose(1<<12, "cor.pos")
	if !swept && t.Choose(8, "mode.stored-junk") == 1 {
		return runC07StoreJunk(t, o)
	}
	s := simrt.Run(t, cfg, func(s *simrt.Sim) {
		w = world.New(s, "C07")
		st.Oracle = map[string]int{}
		if !swept && t.Choose(2, "suffix") == 1 {
			// a metastore that suffixes key ids with its region (the DynamoDB global-table set-up)
			w.Suffix = []string{"us-west-2", "r1"}[t.Choose(2, "suffix.which")]
		}
		pol := world.GenPolicy(t, world.GenOpts{AllowTinyLFU: allowTinyLFU})
		if swept {
			pol = world.PolicyCfg{CacheSK: true, CacheIK: true, SKCap: 1000, IKCap: 1000, Expire: expiresC02, Revoke: revokesC02, Precision: precisionC02}
		}
		p := w.NewProc(pol)
		parts := world.Partitions[:1+t.Choose(3, "nparts")]
		sess := map[string]*world.Sess{}
		for _, part := range parts {
			if se, err := w.Open(p, part); err == nil {
				sess[part] = se
			}
		}
		nrec := 2 + t.Choose(4, "nrec")
		for i := 0; i < nrec; i++ {
			part := parts[t.Choose(len(parts), "pick.part")]
			pc := 2
			if !swept && t.Choose(3, "payload") == 1 {
				pc = []int{0, 1, 3, 4}[t.Choose(4, "payload.class")]
			}
			w.Encrypt(sess[part], w.Payload(pc))
			if t.Choose(5, "rotate") == 1 {
				w.Advance(pol.Expire + time.Hour*25)
			}
		}
		if len(w.Recs) == 0 {
			return
		}
		// cold or warm caches at the moment the corruption is seen
		cold := t.Choose(2, "cold") == 1
		if cold {
			p = w.NewProc(pol)
			for _, part := range parts {
				if se, err := w.Open(p, part); err == nil {
					sess[part] = se
				}
			}
		}
		classes := map[string]bool{}
		reached := false
		// every plaintext handed out stays what it was, whatever is decrypted afterwards
		type handedOut struct {
			got, want []byte
			what      string
		}
		var handed []handedOut
		ncor := 1
		if !swept {
			ncor = 1 + t.Choose(6, "ncor")
		}
		for ci := 0; ci < ncor && len(w.Viols) == 0; ci++ {
			k, ps := kind, pos
			if ci > 0 {
				k, ps = t.Choose(corKinds, "cor.kind"), t.Choose(1<<12, "cor.pos")
			}
			rec := w.Recs[t.Choose(len(w.Recs), "pick.rec")]
			if swept {
				rec = w.Recs[0]
			}
			se := sess[rec.Part]
			drr := cloneDRR(&rec.DRR)
			expect := rec.Payload // payload of the record whose Data is presented
			maysucceed := true
			rowTouched := false
			switch k {
			case corFlipData:
				if len(drr.Data) > 0 {
					b := ps % (len(drr.Data) * 8)
					drr.Data[b/8] ^= 1 << (b % 8)
				}
			case corFlipKey:
				if len(drr.Key.EncryptedKey) > 0 {
					b := ps % (len(drr.Key.EncryptedKey) * 8)
					drr.Key.EncryptedKey[b/8] ^= 1 << (b % 8)
				}
			case corTruncData:
				if len(drr.Data) > 0 {
					drr.Data = drr.Data[:ps%len(drr.Data)]
				}
			case corTruncKey:
				if len(drr.Key.EncryptedKey) > 0 {
					drr.Key.EncryptedKey = drr.Key.EncryptedKey[:ps%len(drr.Key.EncryptedKey)]
				}
			case corSplice:
				other := w.Recs[t.Choose(len(w.Recs), "splice.other")]
				od := cloneDRR(&other.DRR)
				switch t.Choose(5, "splice.what") {
				case 0:
					drr.Key = od.Key // data of rec, key of other
				case 1:
					drr.Key.ParentKeyMeta = od.Key.ParentKeyMeta
				case 2:
					drr.Key.Created = od.Key.Created
				case 3:
					drr.Data = od.Data
					expect = other.Payload
				case 4:
					drr.Key.EncryptedKey = od.Key.EncryptedKey
				}
			case corStructural:
				switch t.Choose(9, "struct.what") {
				case 7:
					// a parent key id that is not a key id at all
					drr.Key.ParentKeyMeta.ID = []string{"", "garbage", "_", "_IK_", "x_", "_x", "%s", "_IK_a_svc_prod_", "\x00"}[ps%9]
					maysucceed = false
				case 8:
					// the id of the record's own key with something appended / cut off
					if ps%2 == 0 {
						drr.Key.ParentKeyMeta.ID += []string{"_", "_us-west-2", "x", "_r1"}[(ps/2)%4]
					} else if n := len(drr.Key.ParentKeyMeta.ID); n > 1 {
						drr.Key.ParentKeyMeta.ID = drr.Key.ParentKeyMeta.ID[:n-1-(ps/2)%(n-1)]
					}
					maysucceed = false
				case 0:
					drr.Key = nil
				case 1:
					drr.Key.ParentKeyMeta = nil
				case 2:
					drr.Data = nil
				case 3:
					drr.Key.EncryptedKey = nil
				case 4:
					drr.Data = []byte{}
					drr.Key.EncryptedKey = []byte{}
				case 5:
					drr.Key.ParentKeyMeta.Created = 0
				case 6:
					drr.Key.ParentKeyMeta.Created = -1
				}
			case corArbitrary:
				r := simrt.NewRand(uint64(ps) + 99)
				drr.Data = make([]byte, r.Intn(80))
				r.Fill(drr.Data)
				drr.Key.EncryptedKey = make([]byte, r.Intn(80))
				r.Fill(drr.Key.EncryptedKey)
				if r.Intn(2) == 0 {
					drr.Key.ParentKeyMeta.Created = int64(r.Intn(1 << 30))
				}
				maysucceed = false
			case corRepeat:
				// the genuine record, presented as the same in-memory object more than once
			default:
				rowTouched = corruptRow(w, t, k, ps, rec)
			}
			classes[fmt.Sprintf("%s/cold=%v", corNames[k], cold)] = true
			count(st.Oracle, "corrupt-decrypt")
			out, op := w.Decrypt(se, &drr)
			if op.Calls > 0 {
				reached = true
			}
			if op.Panic != "" {
				continue // recorded by the wrapper as panic@site
			}
			if op.Err == nil {
				if !maysucceed || !bytes.Equal(out, expect) {
					w.Violate("wrong-bytes", "wrong-bytes/"+corNames[k], "decrypt of a %s record returned %d bytes that are not the payload originally encrypted under it", corNames[k], len(out))
				} else {
					handed = append(handed, handedOut{out, expect, corNames[k]})
				}
			}
			if k == corRepeat && len(w.Viols) == 0 {
				for n := 0; n < 2 && len(w.Viols) == 0; n++ {
					again, op2 := w.Decrypt(se, &drr)
					if op2.Panic == "" && op2.Err == nil {
						if !bytes.Equal(again, expect) {
							w.Violate("wrong-bytes", "wrong-bytes/"+corNames[k], "decrypting the same in-memory record again returned %d bytes that are not its payload", len(again))
						} else {
							handed = append(handed, handedOut{again, expect, corNames[k]})
						}
					}
				}
			}
			for _, h := range handed {
				if !bytes.Equal(h.got, h.want) && len(w.Viols) == 0 {
					w.Violate("wrong-bytes", "wrong-bytes/changed-after-return", "a plaintext returned earlier by a successful decrypt (%s record) no longer equals the payload after a later decrypt of a %s record", h.what, corNames[k])
				}
			}
			if rowTouched {
				// other records of the partition: error or exact payload, never other bytes, never a crash
				for _, r2 := range w.Recs {
					if r2.Part != rec.Part {
						continue
					}
					out2, op2 := w.Decrypt(se, &r2.DRR)
					if op2.Panic == "" && op2.Err == nil && !bytes.Equal(out2, r2.Payload) {
						w.Violate("wrong-bytes", "wrong-bytes/after-"+corNames[k], "after %s, decrypt of r%d returned other bytes", corNames[k], r2.N)
					}
				}
				// encrypt on top of a damaged key table must not crash either
				w.Encrypt(se, w.Payload(2))
			}
		}
		// Load with a loader that has no such record
		count(st.Oracle, "missing-record-load")
		for _, part := range sortedKeysSess(sess) {
			se := sess[part]
			op := w.LoadMissing(se)
			if op.Panic == "" && op.Err == nil {
				w.Violate("load-missing-ok", "load-missing-ok", "Session.Load of a key the loader does not have returned success")
			}
			break
		}
		// decrypt through a session that has been closed, and through a session that outlives its
		// factory: the payload or an error (keys it needs may be gone), not a crash
		if !swept && len(w.Viols) == 0 && len(w.Recs) > 0 {
			w.Faults.Off = true
			for _, part := range sortedKeysSess(sess) {
				se := sess[part]
				var mine *world.Rec
				for _, r := range w.Recs {
					if r.Part == part {
						mine = r
					}
				}
				if mine == nil {
					continue
				}
				if t.Choose(2, "late.close-what") == 0 {
					w.CloseSess(se)
				} else {
					w.CloseProc(p)
				}
				w.Drain()
				// what follows is sequential use after the close has completed, background tear-down
				// included (using a session while it is being torn down is misuse, not the subject here)
				s.Barrier()
				count(st.Oracle, "decrypt-after-close")
				out, op := w.Decrypt(se, &mine.DRR)
				if op.Panic == "" && op.Err == nil && !bytes.Equal(out, mine.Payload) {
					w.Violate("wrong-plaintext", "wrong-plaintext/after-close", "decrypt through a closed session returned other bytes than the payload")
				}
				// and a record whose keys are certainly not cached any more
				cold := w.Recs[t.Choose(len(w.Recs), "late.rec")]
				if cold.Part == part {
					w.Decrypt(se, &cold.DRR)
				}
				break
			}
		}
		st.Nontrivial = reached
		st.Class = fmt.Sprint(keysOf(classes))
		st.Sample = map[string]any{"corruptions": keysOf(classes), "policy": pol.String(), "swept": swept}
	})
	return finish(s, w, st, true)
}

func cloneDRR(d *appencryption.DataRowRecord) appencryption.DataRowRecord {
	out := appencryption.DataRowRecord{Data: append([]byte(nil), d.Data...)}
	if d.Key != nil {
		k := *d.Key
		k.EncryptedKey = append([]byte(nil), d.Key.EncryptedKey...)
		if d.Key.ParentKeyMeta != nil {
			pm := *d.Key.ParentKeyMeta
			k.ParentKeyMeta = &pm
		}
		out.Key = &k
	}
	return out
}

// corruptRow damages the metastore rows the record depends on.
func corruptRow(w *world.World, t *simrt.Tape, kind, pos int, rec *world.Rec) bool {
	id, created := rec.IKID, rec.IKCreated
	if t.Choose(3, "row.level") == 1 { // the system key row instead
		if row, _ := w.Store.Rows.Get(id, created); row != nil && row.ParentKeyMeta != nil {
			id, created = row.ParentKeyMeta.KeyID, row.ParentKeyMeta.Created
		}
	}
	row, _ := w.Store.Rows.Get(id, created)
	if row == nil {
		return false
	}
	kb := row.KeyBytes()
	pm := row.ParentKeyMeta
	cr := row.Created
	switch kind {
	case corRowFlip:
		if len(kb) > 0 {
			b := pos % (len(kb) * 8)
			kb[b/8] ^= 1 << (b % 8)
		}
	case corRowParent:
		if pm != nil {
			pm = &refimpl.KeyMeta{KeyID: pm.KeyID, Created: pm.Created + int64(1+pos%5)}
			if pos%3 == 0 {
				pm.KeyID = pm.KeyID + "x"
			}
		}
	case corRowDrop:
		w.Store.Corrupt(id, created, nil, "drop")
		return true
	case corRowNilParent:
		pm = nil
	case corRowCreated:
		cr = cr + int64(1+pos%100)
	}
	w.Store.Corrupt(id, created, refimpl.MakeKeyRecord(cr, kb, pm, row.Revoked), corNames[kind])
	return true
}

func sortedKeysSess(m map[string]*world.Sess) []string {
	var ks []string
	for k := range m {
		ks = append(ks, k)
	}
	sortStrings(ks)
	return ks
}
