package props

import (
	"fmt"
	"strings"

	"verif/sim/simrt"
	"verif/sim/world"
)

func init() {
	register(&Property{
		ID:    "C09",
		Level: "exploration",
		Rule: "one case = either (a) one enumerated (key-state scenario x seam-call index x fault kind) single-fault case around a target encrypt or decrypt, or (b) one sampled history (encrypt, decrypt, open/close session, clock advance, revocation, rotation by a peer, restart) with random RPC/AEAD/allocator faults, under a swarm-chosen cache policy; after every operation (quiescent point) and after closing sessions and factory the secret ledger is audited; " +
			"non-trivial = the run reached a rotation, a duplicate-key fallback, an eviction or an injected failure with live cached keys; distinct = distinct (policy class, scenario or op-kind set, fault kinds fired) tuples",
		Run:         runC09,
		Sweep:       func(tier string) [][]uint32 { return sweepPrefixes(18) },
		QuickSec:    20,
		ThoroughSec: 600,
		Assumptions: []string{
			"protected memory is the pure-Go tracking factory (every New/CreateRandom/WithBytes/Close is recorded); the real factories' own accounting is covered by C11/C12",
			"entitlement: per process at most one live secret per persisted key per cache that may hold it (one system-key cache per factory; one intermediate-key cache per open session, or one shared); data keys and unsaved keys are never entitled",
			"the one-copy-per-key clause is not evaluated for session-cached configurations (the number of underlying sessions is not observable); the all-released-after-Close clause is",
		},
	})
}

type ledgerAudit struct {
	w       *world.World
	st      *Stats
	index   map[string]string
	indexAt int
}

func (a *ledgerAudit) keyIndex() map[string]string {
	if a.index == nil || a.indexAt != len(a.w.Store.Log) {
		a.index = a.w.KeyPlain()
		a.indexAt = len(a.w.Store.Log)
	}
	return a.index
}

func opCtx(s *world.SecretRec) string {
	if s.Op == nil {
		return "background"
	}
	return fmt.Sprintf("%s op %d faults %v", s.Op.Kind, s.Op.Idx, s.Op.FaultDesc)
}

// audit checks the ledger at a quiescent point.
func (a *ledgerAudit) audit(where string) {
	w := a.w
	idx := a.keyIndex()
	count(a.st.Oracle, "ledger-audit")
	for _, s := range w.Ledger.Secrets {
		if s.CloseCalls > 1 {
			w.Violate("double-release", "double-release", "secret #%d (%s) was closed %d times", s.N, idx[s.FP], s.CloseCalls)
		}
	}
	if len(w.Ledger.UAC) > 0 {
		e := w.Ledger.UAC[0]
		w.Violate("use-after-release", "use-after-release", "secret #%d (%s) accessed (%s) after it was released", e.Secret.N, idx[e.Secret.FP], e.What)
	}
	for _, p := range w.Procs {
		if p.Crashed {
			continue
		}
		live := w.Ledger.LiveOf(p.ID)
		if p.Dead {
			if len(live) > 0 {
				s := live[0]
				w.Violate("leak-after-close", "leak-after-close/"+keyKind(idx[s.FP])+"/"+viaFor(w, p.ID, idx[s.FP], s.Site), "%s: after all sessions and the factory of process %d were closed, %d secret(s) are still allocated; first: #%d %s created in %s", where, p.ID, len(live), s.N, describe(idx[s.FP]), opCtx(s))
			}
			continue
		}
		cachingOff := !p.Cfg.CacheSK && !p.Cfg.CacheIK // a shared IK cache is ignored by policy when IK caching is off
		perFP := map[string]int{}
		nSK, nIK := 0, 0
		for _, s := range live {
			name, ok := idx[s.FP]
			if !ok {
				w.Violate("unentitled-secret-live", "unentitled-secret-live/via="+s.Site, "%s: process %d holds live secret #%d (%d bytes) that is no persisted key (a data key or a discarded unsaved key); created in %s", where, p.ID, s.N, s.Size, opCtx(s))
				continue
			}
			perFP[s.FP]++
			if strings.HasPrefix(name, "_SK_") {
				nSK++
			} else {
				nIK++
			}
		}
		if cachingOff && len(live) > 0 {
			s := live[0]
			w.Violate("retained-with-cache-off", "retained-with-cache-off/"+keyKind(idx[s.FP])+"/"+viaFor(w, p.ID, idx[s.FP], s.Site), "%s: key caching is disabled for process %d but secret #%d (%s) is still allocated at an operation boundary; created in %s", where, p.ID, s.N, describe(idx[s.FP]), opCtx(s))
		}
		if !p.Cfg.CacheSK && nSK > 0 && !cachingOff {
			for _, s := range live {
				if strings.HasPrefix(idx[s.FP], "_SK_") {
					w.Violate("retained-with-cache-off", "retained-with-cache-off/SK/"+viaFor(w, p.ID, idx[s.FP], s.Site), "%s: system-key caching is disabled for process %d but %d system key secret(s) are live; first #%d created in %s", where, p.ID, nSK, s.N, opCtx(s))
					break
				}
			}
		}
		if p.Cfg.SessionCache {
			continue
		}
		openByPart := map[string]int{}
		nOpen := 0
		for _, se := range p.Sess {
			if !se.Closed {
				openByPart[se.Part]++
				nOpen++
			}
		}
		var fps []string
		for fp := range perFP {
			fps = append(fps, fp)
		}
		sortStrings(fps)
		for _, fp := range fps {
			n := perFP[fp]
			name := idx[fp]
			limit := 1
			if !strings.HasPrefix(name, "_SK_") && !p.Cfg.SharedIKCache() {
				limit = 0
				for part, k := range openByPart {
					if strings.HasPrefix(name, w.IKID(part)+"@") {
						limit = k
					}
				}
			}
			if n > limit {
				var first *world.SecretRec
				for _, s := range live {
					if s.FP == fp {
						first = s
						break
					}
				}
				w.Violate("redundant-copies", "redundant-copies/"+keyKind(name)+"/"+viaFor(w, p.ID, name, first.Site), "%s: process %d holds %d live copies of %s but its caches are entitled to %d; oldest copy created in %s", where, p.ID, n, name, limit, opCtx(first))
			}
		}
		bounded := func(pol string) bool { return pol != "" && pol != "simple" }
		if bounded(p.Cfg.SKPolicy) && p.Cfg.CacheSK && nSK > p.Cfg.SKCap {
			sig := "over-capacity/SK"
			for _, s := range live {
				if viaFor(w, p.ID, idx[s.FP], "") == "after-sk-mismatch-fallback" {
					sig = "over-capacity/SK/after-sk-mismatch-fallback"
				}
			}
			w.Violate("over-capacity", sig, "%s: %d live system keys exceed the cache capacity %d", where, nSK, p.Cfg.SKCap)
		}
		if bounded(p.Cfg.IKPolicy) {
			capn := p.Cfg.IKCap
			if !p.Cfg.SharedIKCache() {
				capn *= nOpen
			}
			if nIK > capn {
				w.Violate("over-capacity", "over-capacity/IK", "%s: %d live intermediate keys exceed the total cache capacity %d", where, nIK, capn)
			}
		}
	}
}

// viaFor refines a leak signature: a leaked system-key copy that the process looked up in the
// "stored IK was wrapped by a different SK" fallback is a distinct, separately tracked shape.
func viaFor(w *world.World, proc int, name string, site string) string {
	if strings.HasPrefix(name, "_SK_") {
		if i := strings.LastIndex(name, "@"); i > 0 {
			var c int64
			fmt.Sscanf(name[i+1:], "%d", &c)
			if w.SKMismatchFallbacks()[proc][c] {
				return "after-sk-mismatch-fallback"
			}
		}
	}
	return "via=" + site
}

func keyKind(name string) string {
	switch {
	case strings.HasPrefix(name, "_SK_"):
		return "SK"
	case strings.HasPrefix(name, "_IK_"):
		return "IK"
	}
	return "unpersisted"
}

func describe(name string) string {
	if name == "" {
		return "(no persisted key: data key or unsaved key)"
	}
	return name
}

func runC09(t *simrt.Tape, o Opts) Outcome {
	cfg := schedCfg(t, o, false)
	var w *world.World
	var st Stats
	swept := t.Choose(2, "mode.sweep") == 1
	sc := t.Choose(scCount, "scenario")
	call := t.Choose(18, "fault.call")
	kind := sweepKinds[t.Choose(len(sweepKinds), "fault.kind")]
	s := simrt.Run(t, cfg, func(s *simrt.Sim) {
		w = world.New(s, "C09")
		st.Oracle = map[string]int{}
		aud := &ledgerAudit{w: w, st: &st}
		gen := world.GenOpts{AllowTinyLFU: allowTinyLFU, SmallCaps: t.Choose(2, "smallcaps") == 1, NoSimple: t.Choose(3, "nosimple") == 1}
		if swept {
			pol := world.GenPolicy(t, gen)
			se := setupScenario(w, t, sc, pol, "a")
			if se == nil {
				return
			}
			w.Drain()
			aud.audit("after scenario setup")
			w.Faults.SweepOp = len(w.Ops)
			w.Faults.SweepCall, w.Faults.SweepKind = call, kind
			var op *world.OpRec
			decrypt := t.Choose(3, "target.decrypt") == 1 && len(w.Recs) > 0
			if decrypt {
				_, op = w.Decrypt(se, &w.Recs[0].DRR)
			} else {
				_, op = w.Encrypt(se, w.Payload(2))
			}
			w.Faults.Off = true
			w.Drain()
			aud.audit(fmt.Sprintf("after target op with faults %v in scenario %s", op.FaultDesc, scNames[sc]))
			if len(w.Viols) == 0 {
				w.Encrypt(se, w.Payload(2))
				w.Drain()
				aud.audit("after follow-up encrypt")
			}
			for _, p := range w.Procs {
				w.CloseProc(p)
			}
			w.Drain()
			aud.audit(fmt.Sprintf("after close (scenario %s, faults %v)", scNames[sc], op.FaultDesc))
			st.Nontrivial = op.Faulted > 0
			st.Class = fmt.Sprintf("%s|%s|%v|dec=%v", pol.Class(), scNames[sc], op.FaultDesc, decrypt)
			st.Sample = map[string]any{"scenario": scNames[sc], "faults_fired": op.FaultDesc, "policy": pol.String(), "secrets": len(w.Ledger.Secrets)}
			return
		}
		h := &hist{w: w, t: t, parts: world.Partitions[:1+t.Choose(5, "nparts")], maxProc: 2, gen: gen, samePolicyTimes: true}
		h.weights = [opKinds]int{opEncrypt: 8, opDecrypt: 6, opOpen: 3, opCloseSess: 3, opAdvance: 3, opRevoke: 1, opForeignRotate: 1, opRestart: 1, opNewProc: 1}
		h.payloadClasses = []int{2, 0, 3}
		h.newProc()
		if t.Choose(2, "faulty") == 1 {
			enableRandomFaults(w, t, []string{"ms.err", "ms.errafter", "ms.falsedup", "ms.race", "kms.err", "aead.err", "alloc.err", "ctx.cancel"}, h.base.Expire, h.base.Revoke)
			// the application's cipher panics in the middle of a decrypt and the caller recovers: the
			// references the unwinding call held (intermediate key, page protection) are released all the same
			w.Faults.Kinds["aead.panic"] = t.Choose(2, "aead.panic") == 1
		}
		h.hooks.afterOp = func(k int) { aud.audit("after " + opNames[k]) }
		n := 5 + t.Choose(scale(o, 50, 150), "nops")
		for i := 0; i < n && len(w.Viols) == 0; i++ {
			h.step()
		}
		w.Faults.Off = true
		for _, p := range w.Procs {
			w.CloseProc(p)
		}
		w.Drain()
		aud.audit("after closing every session and factory")
		rot := 0
		for id, m := range w.Store.Rows {
			_ = id
			if len(m) > 1 {
				rot++
			}
		}
		st.Nontrivial = rot > 0 || len(w.Faults.Fired) > 0
		st.Class = fmt.Sprintf("%s|%s|%v", h.base.Class(), kindsUsed(w), faultKinds(w))
		st.Sample = map[string]any{"history": h.trace, "secrets": len(w.Ledger.Secrets)}
	})
	return finish(s, w, st, true)
}
