package props

import (
	"bytes"
	"fmt"
	"time"

	"verif/sim/refimpl"
	"verif/sim/simrt"
	"verif/sim/world"
)

func init() {
	register(&Property{
		ID:    "C14",
		Level: "exploration",
		Rule: "one case = 2-3 simulated processes (own SessionFactory each, shared simulated metastore/KMS, same creation-stamp window) each performing 1-3 encrypts from a start state in {cold, warm, IK expired, SK expired, IK revoked, SK revoked, rotated by peer}, interleaved at the granularity of individual metastore/KMS calls (coarse scheduling: tasks are switched only at seam calls), optionally racing with the foreign implementation; " +
			"non-trivial = at least one insert was refused as a duplicate (a race was lost); distinct = distinct orders of seam calls across processes (hash of the (process, call class) sequence)",
		Run:         runC14,
		QuickSec:    25,
		ThoroughSec: 600,
		Assumptions: []string{
			"interleavings are sampled by the seeded scheduler, not exhaustively enumerated (that would be model checking); the evidence reports the number of distinct call-order interleavings reached",
			"the simulated metastore is insert-only by construction; the 'never modified' clause is checked by comparing every row's bytes at the end with its bytes at insert time (operator revocations excluded)",
		},
	})
	register(&Property{
		ID:    "C16",
		Level: "exploration",
		Rule: "one case = one schedule-explored concurrent run with session caching on: 2-5 tasks get, use and close sessions over more partitions than the session cache holds (size 1-3, every eviction policy, expiry 0 / 5s / 2h) while the main task advances the virtual clock; " +
			"non-trivial = at least one cached session was evicted or expired while a holder still held it; distinct = distinct context-switch traces; classes are (session policy, size, duration, strategy)",
		Run:         runC16,
		QuickSec:    30,
		ThoroughSec: 900,
		Assumptions: []string{
			"each holder closes its session exactly once, after its own operations returned; the factory is closed after all holders finished",
			"'share one underlying session' is asserted only while no eviction or expiry can have happened (capacity >= partitions in use, no expiry elapsed)",
		},
	})
}

func runC14(t *simrt.Tape, o Opts) Outcome {
	cfg := schedCfg(t, o, true)
	cfg.Coarse = true
	var w *world.World
	var st Stats
	s := simrt.Run(t, cfg, func(s *simrt.Sim) {
		w = world.New(s, "C14")
		st.Oracle = map[string]int{}
		if t.Choose(3, "memstore") == 1 {
			w.UseMemoryMetastore()
		}
		sc := t.Choose(scCount, "scenario")
		pol := world.GenPolicy(t, world.GenOpts{AllowTinyLFU: allowTinyLFU})
		// a quarter of the races are between hosts whose clocks disagree by less than, or a few times,
		// the creation-stamp precision (racers then collide on neighbouring stamps as well as equal ones)
		// slow metastore / KMS calls: the clock may cross a creation-stamp boundary while a racer's call
		// is in flight
		if t.Choose(4, "slow-calls") == 1 {
			w.Faults.Random = true
			w.Faults.Kinds["latency"] = true
			w.Faults.RateNum, w.Faults.RateDen = 1, []int{4, 10}[t.Choose(2, "slow-calls.rate")]
			prec := pol.Precision
			if prec <= 0 {
				prec = time.Second
			}
			w.LatencyMenu = []time.Duration{time.Millisecond, prec / 2, prec, prec + time.Second}
		}
		// lost acknowledgements: an insert is applied but reported as failed (one racer in four runs)
		if t.Choose(4, "lost-acks") == 1 {
			w.Faults.Random = true
			w.Faults.Kinds["ms.errafter"] = true
			w.Faults.Kinds["ms.readonly-faults"] = false
			if w.Faults.RateDen == 0 {
				w.Faults.RateNum, w.Faults.RateDen = 1, 6
			}
		}
		if t.Choose(4, "clock-skew") == 1 {
			w.ClockSkews = []time.Duration{0, 300 * time.Millisecond, -300 * time.Millisecond, pol.Precision, -pol.Precision, 3 * pol.Precision, -3 * pol.Precision}
		}
		pol.Precision = []time.Duration{time.Minute, time.Hour, time.Second}[t.Choose(3, "prec")]
		nproc := 2 + t.Choose(2, "nproc")
		part := "a"
		// start state: built by a first process that is then left running or replaced
		se0 := setupScenario(w, t, sc, pol, part)
		w.Drain()
		type actor struct {
			p    *world.Proc
			se   *world.Sess
			recs []*world.Rec
		}
		var actors []*actor
		for i := 0; i < nproc; i++ {
			a := &actor{}
			if i == 0 && se0 != nil && t.Choose(2, "reuse-first") == 1 {
				a.p, a.se = se0.P, se0
			} else {
				a.p = w.NewProc(pol)
				se, err := w.Open(a.p, part)
				if err != nil {
					return
				}
				a.se = se
			}
			actors = append(actors, a)
		}
		// the state the race starts from: which system key (if any) the scenario revoked, and the first
		// creation stamp of the race
		var revokedSK int64
		if sc == scSKRevoked {
			for c := range w.Store.Rows[w.SKID()] {
				if row, _ := w.Store.Rows.Get(w.SKID(), c); row != nil && row.Revoked && c > revokedSK {
					revokedSK = c
				}
			}
		}
		raceStart := unixAt(w, s.Elapsed()).Unix()
		foreignRace := t.Choose(4, "foreign-race") == 1
		nenc := 1 + t.Choose(scale(o, 3, 5), "nenc")
		var tasks []*simrt.Task
		for i, a := range actors {
			a := a
			tasks = append(tasks, s.GoNode(fmt.Sprintf("proc%d", a.p.ID), i+1, func() {
				for k := 0; k < nenc; k++ {
					if s.Ending() {
						return
					}
					rec, op := w.Encrypt(a.se, w.Payload(2))
					if op.Panic != "" {
						return
					}
					if rec == nil {
						if op.Faulted > 0 {
							continue // an injected failure inside this operation: it may fail, never lie
						}
						w.Violate("encrypt-failed", "encrypt-failed/racing", "process %d could not encrypt while racing for key creation: %v", a.p.ID, op.Err)
						return
					}
					a.recs = append(a.recs, rec)
				}
			}))
		}
		if foreignRace {
			s.Point(simrt.KSeam, "foreign.race")
			if t.Choose(2, "foreign.sk") == 1 {
				w.Foreign().EnsureSK(pol.Precision, pol.Expire, true)
			}
			s.Point(simrt.KSeam, "foreign.race")
			w.Foreign().RotateIK(part, pol.Precision, pol.Expire)
		}
		for _, tk := range tasks {
			s.Join(tk)
		}
		w.Drain()
		// oracles (with every fault switched off: what is judged is what the race left behind)
		w.Faults.Off = true
		snap := w.Snapshot()
		dups := 0
		order := ""
		for _, c := range w.Calls {
			if c.Result == "dup" {
				dups++
			}
			if c.Op != nil && c.Op.Kind == "encrypt" && (c.Class[:2] == "ms" || c.Class[:3] == "kms") {
				order += fmt.Sprintf("%d%s,", c.Proc, c.Class[len(c.Class)-3:])
			}
		}
		for _, a := range actors {
			for _, rec := range a.recs {
				count(st.Oracle, "record-chain-persisted")
				ik, _ := snap.Get(rec.IKID, rec.IKCreated)
				if ik == nil {
					w.Violate("ik-not-persisted", "ik-not-persisted", "process %d encrypted under IK %s@%d which is not in the metastore", a.p.ID, rec.IKID, rec.IKCreated)
					continue
				}
				if ik.ParentKeyMeta == nil {
					continue
				}
				if skr, _ := snap.Get(ik.ParentKeyMeta.KeyID, ik.ParentKeyMeta.Created); skr == nil {
					w.Violate("sk-not-persisted", "sk-not-persisted", "IK %s@%d names SK @%d which is not in the metastore", rec.IKID, rec.IKCreated, ik.ParentKeyMeta.Created)
					continue
				}
				// every racer found the system key revoked (two intervals ago, and a later stamp can be
				// created): whoever wins which insert, no intermediate key made during the race hangs
				// off that system key
				if revokedSK != 0 && len(w.ClockSkews) == 0 && rec.IKCreated >= raceStart-int64(pol.Precision/time.Second) {
					count(st.Oracle, "no-new-ik-under-the-revoked-sk")
					if ik.ParentKeyMeta.Created == revokedSK && ik.Created > revokedSK {
						w.Violate("ik-created-under-revoked-sk", "ik-created-under-revoked-sk/racing", "process %d encrypted under IK %s@%d, created during the race under system key @%d, which every racer had found revoked", a.p.ID, rec.IKID, rec.IKCreated, revokedSK)
						continue
					}
				}
				got, err := refimpl.Decrypt(snap, w.KMS, rec.JSON)
				if err != nil || !bytes.Equal(got, rec.Payload) {
					w.Violate("reference-cannot-decrypt", "reference-cannot-decrypt", "the reference implementation cannot decrypt a record process %d produced while racing: %v", a.p.ID, err)
					continue
				}
				for _, b := range actors {
					count(st.Oracle, "cross-process-decrypt")
					out, op := w.Decrypt(b.se, &rec.DRR)
					if op.Panic == "" && (op.Err != nil || !bytes.Equal(out, rec.Payload)) {
						w.Violate("peer-cannot-decrypt", "peer-cannot-decrypt", "process %d cannot decrypt a record produced by process %d during the race: %v", b.p.ID, a.p.ID, op.Err)
					}
				}
			}
		}
		// no stored row was modified or removed by the SDK
		count(st.Oracle, "rows-unmodified")
		var rowIDs []string
		for id := range w.Store.AtInsert {
			rowIDs = append(rowIDs, id)
		}
		sortStrings(rowIDs)
		for _, id := range rowIDs {
			for c, b0 := range w.Store.AtInsert[id] {
				b1, ok := w.Store.Rows[id][c]
				if !ok {
					w.Violate("row-removed", "row-removed", "row %s@%d disappeared from the metastore", id, c)
				} else if !bytes.Equal(b0, b1) {
					w.Violate("row-modified", "row-modified", "row %s@%d was modified after insertion", id, c)
				}
			}
		}
		for _, ch := range w.AliasedRowChanges() {
			count(st.Oracle, "aliased-row-unmodified")
			w.Violate("row-modified", "row-modified/through-returned-pointer", "a record stored in the (real in-memory) metastore was changed after insertion: %s", ch)
		}
		for _, e := range w.Store.Log {
			if e.Kind != "insert" && e.By != "operator" && e.By != "foreign" {
				w.Violate("non-insert-mutation", "non-insert-mutation", "metastore mutation %s by %s", e.Kind, e.By)
			}
		}
		// the losers' unsaved keys are discarded: at quiescence every live secret is a persisted key
		idx := w.KeyPlain()
		for _, sct := range w.Ledger.Live() {
			count(st.Oracle, "loser-key-discarded")
			if _, ok := idx[sct.FP]; !ok {
				w.Violate("unsaved-key-kept", "unsaved-key-kept/via="+sct.Site, "after the race process %d still holds secret #%d which is not a persisted key (an unsaved key that lost its insert, or a data key); created in %s", sct.Proc, sct.N, opCtx(sct))
				break
			}
		}
		st.Nontrivial = dups > 0
		st.Class = fmt.Sprintf("%s|%d|%x", scNames[sc], nproc, simrtHash(order))
		st.Sample = map[string]any{"scenario": scNames[sc], "processes": nproc, "encrypts_each": nenc, "duplicate_inserts_refused": dups, "call_order": order, "policy": pol.String()}
	})
	return finish(s, w, st, true)
}

func simrtHash(s string) uint64 {
	var h uint64 = 14695981039346656037
	for i := 0; i < len(s); i++ {
		h = (h ^ uint64(s[i])) * 1099511628211
	}
	return h
}

func runC16(t *simrt.Tape, o Opts) Outcome {
	cfg := schedCfg(t, o, true)
	var w *world.World
	var st Stats
	s := simrt.Run(t, cfg, func(s *simrt.Sim) {
		w = world.New(s, "C16")
		st.Oracle = map[string]int{}
		pol := world.GenPolicy(t, world.GenOpts{ForceCache: t.Choose(3, "forcecache") != 0, NoSessionCache: true, AllowTinyLFU: allowTinyLFU})
		pol.SessionCache = true
		pol.SessSize = []int{1, 2, 3, 1000}[t.Choose(4, "sesssize")]
		pol.SessDur = []time.Duration{2 * time.Hour, 5 * time.Second, 0}[t.Choose(3, "sessdur")]
		sp := []string{"", "lru", "lfu", "slru", "tinylfu"}
		if !allowTinyLFU {
			sp = sp[:4]
		}
		pol.SessPolicy = sp[t.Choose(len(sp), "sesspolicy")]
		nparts := 2 + t.Choose(5, "nparts")
		parts := make([]string, nparts)
		for i := range parts {
			parts[i] = fmt.Sprintf("p%d", i)
		}
		p := w.NewProc(pol)
		nclients := 2 + t.Choose(scale(o, 4, 6), "nclients")
		opsPer := 2 + t.Choose(scale(o, 4, 8), "opsper")
		var advanced time.Duration
		noEvict := func() bool {
			return pol.SessSize >= nparts && (pol.SessDur == 0 || advanced < pol.SessDur)
		}
		shared := map[string]any{}
		var tasks []*simrt.Task
		for ci := 0; ci < nclients; ci++ {
			ci := ci
			type step struct {
				part string
				uses int
				hold bool
			}
			plan := make([]step, opsPer)
			for i := range plan {
				plan[i] = step{parts[t.Choose(len(parts), "c.part")], 1 + t.Choose(3, "c.uses"), t.Choose(3, "c.hold") == 1}
			}
			tasks = append(tasks, s.Go(fmt.Sprintf("holder%d", ci), func() {
				var held []*world.Sess
				for _, stp := range plan {
					if s.Ending() {
						return
					}
					se, err := w.Open(p, stp.part)
					if err != nil {
						w.Violate("open-failed", "open-failed", "GetSession(%q) failed: %v", stp.part, err)
						return
					}
					if noEvict() {
						count(st.Oracle, "shared-underlying-session")
						if prev, ok := shared[stp.part]; ok && prev != any(se.S) {
							w.Violate("session-not-shared", "session-not-shared", "two callers asking for cached partition %q got different underlying sessions although nothing can have been evicted", stp.part)
						}
						shared[stp.part] = se.S
					}
					var last *world.Rec
					for u := 0; u < stp.uses; u++ {
						count(st.Oracle, "op-on-held-session")
						if last != nil && u%2 == 1 {
							out, op := w.Decrypt(se, &last.DRR)
							if op.Panic != "" {
								return
							}
							if op.Err != nil || !bytes.Equal(out, last.Payload) {
								w.Violate("op-on-held-session-failed", "held-session-decrypt-failed/"+errClass(op.Err), "holder %d: decrypt on a session it still holds (partition %q) failed: %v", ci, stp.part, op.Err)
								return
							}
							continue
						}
						rec, op := w.Encrypt(se, w.Payload(2))
						if op.Panic != "" {
							return
						}
						if rec == nil {
							w.Violate("op-on-held-session-failed", "held-session-encrypt-failed/"+errClass(op.Err), "holder %d: encrypt on a session it still holds (partition %q) failed: %v", ci, stp.part, op.Err)
							return
						}
						last = rec
					}
					if stp.hold {
						held = append(held, se)
					} else {
						w.CloseSess(se)
					}
				}
				// sessions held across other requests keep working until their holder closes them
				for _, se := range held {
					count(st.Oracle, "op-on-long-held-session")
					rec, op := w.Encrypt(se, w.Payload(2))
					if op.Panic != "" {
						return
					}
					if rec == nil {
						w.Violate("op-on-held-session-failed", "long-held-session-encrypt-failed/"+errClass(op.Err), "holder %d: a session held while other partitions were requested (partition %q) stopped working: %v", ci, se.Part, op.Err)
						return
					}
					w.CloseSess(se)
				}
			}))
		}
		nadv := t.Choose(3, "nadv")
		for i := 0; i < nadv; i++ {
			s.Point(simrt.KSeam, "main.advance")
			d := []time.Duration{6 * time.Second, time.Second, 2*time.Hour + time.Second}[t.Choose(3, "adv")]
			advanced += d
			w.Advance(d)
		}
		for _, tk := range tasks {
			s.Join(tk)
		}
		w.Drain()
		if len(w.Ledger.UAC) > 0 && len(w.Viols) == 0 {
			e := w.Ledger.UAC[0]
			w.Violate("use-after-close", "use-after-close", "secret #%d was accessed (%s) after its Close had begun, by %v", e.Secret.N, e.What, opDesc(e.Op))
		}
		// factory close releases everything exactly once
		w.CloseProc(p)
		w.Drain()
		count(st.Oracle, "all-released-after-close")
		if blocked := s.OthersBlocked(); len(blocked) > 0 && len(w.Viols) == 0 {
			w.Violate("teardown-stuck", "teardown-stuck", "after every holder closed its session and the factory was closed, background tasks are still blocked: %v", blocked)
		}
		for _, sct := range w.Ledger.Secrets {
			if sct.CloseCalls > 1 {
				w.Violate("double-release", "double-release", "secret #%d released %d times", sct.N, sct.CloseCalls)
			}
		}
		if live := w.Ledger.LiveOf(p.ID); len(live) > 0 && len(w.Viols) == 0 {
			idx := w.KeyPlain()
			sct := live[0]
			w.Violate("leak-after-close", "leak-after-close/"+keyKind(idx[sct.FP])+"/"+viaFor(w, p.ID, idx[sct.FP], sct.Site), "after all holders and the factory closed, %d secret(s) are still allocated; first #%d %s created in %s", len(live), sct.N, describe(idx[sct.FP]), opCtx(sct))
		}
		st.Nontrivial = s.Switches > 0 && nparts > pol.SessSize || pol.SessDur < time.Minute
		st.Class = fmt.Sprintf("%s/%d/%v|strat=%d/%d|c=%d", pol.SessPolicy, pol.SessSize, pol.SessDur, cfg.Strategy, cfg.PCTDepth, nclients)
		st.Sample = map[string]any{"policy": pol.String(), "holders": nclients, "partitions": nparts, "switches": s.Switches}
	})
	return finish(s, w, st, true)
}
