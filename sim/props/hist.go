package props

import (
	"fmt"
	"strings"
	"time"

	"verif/sim/simrt"
	"verif/sim/world"
)

// op kinds of generated histories
const (
	opEncrypt = iota
	opDecrypt
	opOpen
	opCloseSess
	opAdvance
	opRevoke
	opForeignRotate
	opRestart
	opCrash
	opNewProc
	opBurst
	opKinds
)

var opNames = [...]string{"encrypt", "decrypt", "open", "close-session", "advance", "revoke", "foreign-rotate", "restart", "crash", "new-proc", "concurrent-burst"}

// hist drives a sequential history of operations over a world.
type hist struct {
	w               *world.World
	t               *simrt.Tape
	gen             world.GenOpts
	parts           []string
	weights         [opKinds]int
	maxProc         int
	samePolicyTimes bool // all processes share Expire/Revoke/Precision of the first
	base            world.PolicyCfg
	trace           []string
	hooks           histHooks
	payloadClasses  []int
	seenLog         int
}

type histHooks struct {
	afterEncrypt func(se *world.Sess, rec *world.Rec, op *world.OpRec)
	afterDecrypt func(se *world.Sess, rec *world.Rec, out []byte, op *world.OpRec)
	afterOp      func(kind int)
}

func (h *hist) note(format string, a ...any) {
	if len(h.trace) < 80 {
		h.trace = append(h.trace, fmt.Sprintf(format, a...))
	}
}

func (h *hist) liveProcs() []*world.Proc {
	var out []*world.Proc
	for _, p := range h.w.Procs {
		if !p.Dead {
			out = append(out, p)
		}
	}
	return out
}

func (h *hist) openSessions() []*world.Sess {
	var out []*world.Sess
	for _, p := range h.w.Procs {
		if p.Dead {
			continue
		}
		for _, se := range p.Sess {
			if !se.Closed {
				out = append(out, se)
			}
		}
	}
	return out
}

func (h *hist) newProc() *world.Proc {
	cfg := world.GenPolicy(h.t, h.gen)
	if len(h.w.Procs) == 0 {
		h.base = cfg
	} else if h.samePolicyTimes {
		cfg.Expire, cfg.Revoke, cfg.Precision = h.base.Expire, h.base.Revoke, h.base.Precision
	}
	p := h.w.NewProc(cfg)
	h.note("proc%d start {%s}", p.ID, cfg)
	return p
}

func (h *hist) pickProc() *world.Proc {
	lp := h.liveProcs()
	if len(lp) == 0 {
		return h.newProc()
	}
	return lp[h.t.Choose(len(lp), "pick.proc")]
}

// sessionFor returns an open session of part on some live process, opening one if needed.
func (h *hist) sessionFor(part string, preferExisting bool) *world.Sess {
	var cands []*world.Sess
	for _, se := range h.openSessions() {
		if se.Part == part {
			cands = append(cands, se)
		}
	}
	if len(cands) > 0 && (preferExisting || h.t.Choose(3, "sess.reuse") != 2) {
		return cands[h.t.Choose(len(cands), "pick.sess")]
	}
	p := h.pickProc()
	se, err := h.w.Open(p, part)
	if err != nil {
		return nil
	}
	h.note("p%d open %q -> s%d", p.ID, part, se.N)
	return se
}

func (h *hist) pickPart() string { return h.parts[h.t.Choose(len(h.parts), "pick.part")] }

func (h *hist) chooseKind() int {
	total := 0
	for _, wgt := range h.weights {
		total += wgt
	}
	r := h.t.Choose(total, "op.kind")
	for k, wgt := range h.weights {
		if r < wgt {
			return k
		}
		r -= wgt
	}
	return 0
}

func (h *hist) payload() []byte {
	pc := h.payloadClasses
	if len(pc) == 0 {
		pc = []int{2, 0, 1, 3, 4}
	}
	return h.w.Payload(pc[h.t.Choose(len(pc), "payload.class")])
}

// step performs one generated operation.
func (h *hist) step() {
	k := h.chooseKind()
	w := h.w
	switch k {
	case opEncrypt:
		se := h.sessionFor(h.pickPart(), false)
		if se == nil {
			return
		}
		pl := h.payload()
		rec, op := w.Encrypt(se, pl)
		if rec != nil {
			h.note("s%d(p%d,%q) encrypt %dB -> r%d ik@%d", se.N, se.P.ID, se.Part, len(pl), rec.N, rec.IKCreated)
		} else {
			h.note("s%d(p%d,%q) encrypt %dB -> err %v %v", se.N, se.P.ID, se.Part, len(pl), short(op.Err), op.FaultDesc)
		}
		if h.hooks.afterEncrypt != nil {
			h.hooks.afterEncrypt(se, rec, op)
		}
	case opDecrypt:
		if len(w.Recs) == 0 {
			return
		}
		rec := w.Recs[h.t.Choose(len(w.Recs), "pick.rec")]
		se := h.sessionFor(rec.Part, false)
		if se == nil {
			return
		}
		out, op := w.Decrypt(se, &rec.DRR)
		h.note("s%d(p%d,%q) decrypt r%d -> %s %v", se.N, se.P.ID, se.Part, rec.N, resStr(out, op), op.FaultDesc)
		if h.hooks.afterDecrypt != nil {
			h.hooks.afterDecrypt(se, rec, out, op)
		}
	case opOpen:
		h.sessionFor(h.pickPart(), false)
	case opCloseSess:
		os := h.openSessions()
		if len(os) == 0 {
			return
		}
		se := os[h.t.Choose(len(os), "pick.sess")]
		w.CloseSess(se)
		h.note("s%d close", se.N)
	case opAdvance:
		menu := world.AdvanceMenu(h.base)
		// to just before / just after the next creation-stamp boundary (whatever the clock reads now)
		if prec := h.base.Precision; prec > time.Second {
			now := unixAt(w, w.S.Elapsed())
			toBoundary := now.Truncate(prec).Add(prec).Sub(now)
			menu = append(menu, toBoundary+time.Second)
			if toBoundary > 2*time.Second {
				menu = append(menu, toBoundary-time.Second)
			}
		}
		d := menu[h.t.Choose(len(menu), "advance.d")]
		if d < 0 {
			d = time.Second
		}
		w.Advance(d)
		h.note("advance %v", d)
	case opRevoke:
		h.revokeSome()
	case opForeignRotate:
		f := w.Foreign()
		if h.t.Choose(4, "foreign.what") == 0 {
			if c, _, made := f.EnsureSK(h.base.Precision, h.base.Expire, true); made {
				h.note("foreign new SK@%d", c)
			}
		} else {
			part := h.pickPart()
			if c, _, made := f.RotateIK(part, h.base.Precision, h.base.Expire); made {
				h.note("foreign new IK(%q)@%d", part, c)
			}
		}
	case opRestart:
		lp := h.liveProcs()
		if len(lp) == 0 {
			return
		}
		p := lp[h.t.Choose(len(lp), "pick.proc")]
		w.CloseProc(p)
		h.note("p%d clean shutdown", p.ID)
		h.newProc()
	case opCrash:
		lp := h.liveProcs()
		if len(lp) == 0 {
			return
		}
		p := lp[h.t.Choose(len(lp), "pick.proc")]
		w.Crash(p)
		h.note("p%d crash", p.ID)
		h.newProc()
	case opNewProc:
		if len(h.liveProcs()) < h.maxProc {
			h.newProc()
		}
	case opBurst:
		h.burst()
	}
	w.Drain()
	if h.hooks.afterOp != nil {
		h.hooks.afterOp(k)
	}
}

// burst: two to four request handlers of one process encrypt at the same moment while metastore and
// KMS calls are slow (the clock moves inside the calls), on one partition (shared session, session
// cache or shared IK cache) or on several (shared SK cache). Every result goes through the same
// per-operation oracle as the sequential operations.
func (h *hist) burst() {
	w, t := h.w, h.t
	lp := h.liveProcs()
	if len(lp) == 0 {
		return
	}
	p := lp[t.Choose(len(lp), "burst.proc")]
	n := 2 + t.Choose(3, "burst.tasks")
	per := 1 + t.Choose(3, "burst.per")
	samePart := t.Choose(2, "burst.same-partition") == 1
	sameSess := samePart && t.Choose(2, "burst.same-session") == 1
	var sess []*world.Sess
	for i := 0; i < n; i++ {
		part := h.parts[i%len(h.parts)]
		if samePart {
			part = h.parts[0]
		}
		if sameSess && i > 0 {
			sess = append(sess, sess[0])
			continue
		}
		se, err := w.Open(p, part)
		if err != nil {
			return
		}
		sess = append(sess, se)
	}
	// slow calls for the duration of the burst
	savedRandom, savedLat, savedMenu := w.Faults.Random, w.Faults.Kinds["latency"], w.LatencyMenu
	savedNum, savedDen := w.Faults.RateNum, w.Faults.RateDen
	if !w.Faults.Random {
		w.Faults.RateNum, w.Faults.RateDen = 1, 3
	}
	w.Faults.Random = true
	w.Faults.Kinds["latency"] = true
	w.LatencyMenu = []time.Duration{time.Millisecond, 400 * time.Millisecond, time.Second, 2 * time.Second}
	h.note("burst: %d handlers x %d encrypts on p%d (same partition %v, same session %v)", n, per, p.ID, samePart, sameSess)
	var tasks []*simrt.Task
	for i := 0; i < n; i++ {
		se := sess[i]
		tasks = append(tasks, w.S.Go("burst", func() {
			for k := 0; k < per && !w.S.Ending() && len(w.Viols) == 0; k++ {
				rec, op := w.Encrypt(se, w.Payload(2))
				if h.hooks.afterEncrypt != nil {
					h.hooks.afterEncrypt(se, rec, op)
				}
			}
		}))
	}
	// time passes while the handlers are somewhere inside their calls (a handler that is descheduled
	// or paused between two statements resumes at a later wall-clock time)
	if t.Choose(2, "burst.clock-moves") == 1 {
		menu := world.AdvanceMenu(h.base)
		jumps := 1 + t.Choose(2, "burst.jumps")
		tasks = append(tasks, w.S.Go("clock", func() {
			for j := 0; j < jumps && !w.S.Ending(); j++ {
				for y := t.Choose(12, "burst.jump-after"); y > 0; y-- {
					w.S.Point(simrt.KSeam, "burst.clock")
				}
				d := menu[t.Choose(len(menu), "burst.jump")]
				if d > 0 {
					w.Advance(d)
				}
			}
		}))
	}
	for _, tk := range tasks {
		w.S.Join(tk)
	}
	w.Faults.Random, w.Faults.Kinds["latency"], w.LatencyMenu = savedRandom, savedLat, savedMenu
	w.Faults.RateNum, w.Faults.RateDen = savedNum, savedDen
}

// revokeSome flags a key as revoked in the store: latest IK of a partition, latest SK, or an older key.
func (h *hist) revokeSome() (string, int64, bool) {
	w := h.w
	var id string
	switch h.t.Choose(3, "revoke.what") {
	case 0:
		id = w.IKID(h.pickPart())
	case 1:
		id = w.SKID()
	default:
		// any row
		var ids []string
		for k := range w.Store.Rows {
			ids = append(ids, k)
		}
		if len(ids) == 0 {
			return "", 0, false
		}
		sortStrings(ids)
		id = ids[h.t.Choose(len(ids), "revoke.id")]
	}
	m := w.Store.Rows[id]
	if len(m) == 0 {
		return "", 0, false
	}
	var cs []int64
	for c := range m {
		cs = append(cs, c)
	}
	sortInt64(cs)
	c := cs[len(cs)-1]
	if h.t.Choose(4, "revoke.older") == 3 {
		c = cs[h.t.Choose(len(cs), "revoke.which")]
	}
	if w.Store.Revoke(id, c) {
		h.note("operator revokes %s@%d", id, c)
		return id, c, true
	}
	return "", 0, false
}

func short(err error) string {
	if err == nil {
		return "nil"
	}
	s := err.Error()
	if len(s) > 60 {
		s = s[:60]
	}
	return s
}

func resStr(out []byte, op *world.OpRec) string {
	if op.Panic != "" {
		return "PANIC " + op.Panic
	}
	if op.Err != nil {
		return "err " + short(op.Err)
	}
	return fmt.Sprintf("%dB", len(out))
}

func sortStrings(a []string) {
	for i := 1; i < len(a); i++ {
		for j := i; j > 0 && a[j] < a[j-1]; j-- {
			a[j], a[j-1] = a[j-1], a[j]
		}
	}
}

func sortInt64(a []int64) {
	for i := 1; i < len(a); i++ {
		for j := i; j > 0 && a[j] < a[j-1]; j-- {
			a[j], a[j-1] = a[j-1], a[j]
		}
	}
}

func kindsUsed(w *world.World) string {
	seen := map[string]bool{}
	for _, op := range w.Ops {
		seen[op.Kind] = true
	}
	var ks []string
	for k := range seen {
		ks = append(ks, k)
	}
	sortStrings(ks)
	return strings.Join(ks, ",")
}

// enableRandomFaults switches on a tape-chosen subset of fault kinds.
func enableRandomFaults(w *world.World, t *simrt.Tape, kinds []string, exp, rev time.Duration) {
	w.Faults.Random = true
	for _, k := range kinds {
		if t.Choose(2, "fault.enable."+k) == 1 {
			w.Faults.Kinds[k] = true
		}
	}
	w.Faults.RateNum, w.Faults.RateDen = 1, []int{6, 12, 25}[t.Choose(3, "fault.rate")]
	w.LatencyMenu = []time.Duration{time.Millisecond, time.Second, rev + time.Second, exp + time.Second}
}
