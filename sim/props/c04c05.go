package props

import (
	"fmt"
	"time"
	_ "time/tzdata"

	"verif/sim/refimpl"
	"verif/sim/simrt"
	"verif/sim/world"
)

func init() {
	register(&Property{
		ID:    "C04",
		Level: "exploration",
		Rule: "one case = one simulated history dominated by encrypts and boundary-biased clock advances (1s, precision±1s, revoke interval±1s, key lifetime±1s, 2x), with revocations, rotations by a foreign implementation and restarts, over 1-2 processes under a swarm-chosen cache policy, metastore fault-free; " +
			"non-trivial = at least one encrypt was issued after some key in use had crossed its lifetime; distinct = distinct (policy class, which of IK/SK crossed expiry, cache state at crossing) triples",
		Run:         runC04,
		QuickSec:    25,
		ThoroughSec: 600,
		Assumptions: []string{
			"all processes read one simulated clock that never runs backwards; RPC latency is zero so every time inside an operation equals its invocation time",
			"an operation is exempt when no later creation stamp exists (truncate(now, CreateDatePrecision) is not after the stamp of the key that would have to be replaced)",
			"boundary convention of the policy: a key is expired when now is strictly after created+ExpireKeyAfter",
		},
	})
	register(&Property{
		ID:    "C05",
		Level: "exploration",
		Rule: "one case = one simulated history: caches are filled, a key (latest IK, latest SK or an older key) is flagged revoked in the simulated metastore by an operator at a tape-chosen moment, optionally another process or the foreign implementation rotates, then encrypts are issued at clock values around T+I and T+2I; " +
			"non-trivial = an encrypt was issued later than T+I (resp. T+2I) after a revocation of a key the issuing process had used; distinct = distinct (policy class, revoked key kind, cache kind holding it, rotated-by) tuples",
		Run:         runC05,
		QuickSec:    25,
		ThoroughSec: 600,
		Assumptions: []string{
			"single simulated clock, zero RPC latency, metastore fault-free and strongly consistent (a read after the revocation sees it)",
			"the bound is counted from the revocation time T, which is never earlier than the last time any cache confirmed the key un-revoked, so code honouring 'one interval after it last confirmed the key' cannot be flagged",
			"an operation is exempt when no later creation stamp exists for the key that has to be replaced",
		},
	})
}

// keyFacts gathers what the oracles need about the key a record names.
type keyFacts struct {
	ikID      string
	ikCreated int64
	ikRow     *refimpl.KeyRecord
	skID      string
	skCreated int64
	skRow     *refimpl.KeyRecord
}

func factsFor(w *world.World, rec *world.Rec) keyFacts {
	f := keyFacts{ikID: rec.IKID, ikCreated: rec.IKCreated}
	f.ikRow, _ = w.Store.Rows.Get(rec.IKID, rec.IKCreated)
	if f.ikRow != nil && f.ikRow.ParentKeyMeta != nil {
		f.skID, f.skCreated = f.ikRow.ParentKeyMeta.KeyID, f.ikRow.ParentKeyMeta.Created
		f.skRow, _ = w.Store.Rows.Get(f.skID, f.skCreated)
	}
	return f
}

func unixAt(w *world.World, d time.Duration) time.Time { return w.S.Cfg.Epoch.Add(d) }

func truncUnix(t time.Time, prec time.Duration) int64 {
	if prec > 0 {
		return t.Truncate(prec).Unix()
	}
	return t.Unix()
}

// laterStampFrom is the first instant at which a key created "now" gets a creation stamp later
// than c (before that instant the SDK cannot create a replacement: its insert would collide).
func laterStampFrom(c int64, prec time.Duration) time.Time {
	ps := int64(prec / time.Second)
	if ps <= 1 {
		return time.Unix(c+1, 0)
	}
	q := c / ps
	if c < 0 && c%ps != 0 {
		q--
	}
	return time.Unix((q+1)*ps, 0)
}

func maxTime(ts ...time.Time) time.Time {
	m := ts[0]
	for _, t := range ts[1:] {
		if t.After(m) {
			m = t
		}
	}
	return m
}

func revokedAt(w *world.World, id string, created int64) (time.Duration, bool) {
	for _, e := range w.Store.Log {
		if e.Kind == "revoke" && e.ID == id && e.Created == created {
			return e.T, true
		}
	}
	return 0, false
}

// opSlack is the longest time any operation of the run has taken so far (operations still in flight
// count up to now). With slow calls a cache stamps a key as freshly checked when the call that read
// it *returns*, which can be that much later than the moment the record was read; every bound that is
// stated in revoke-check intervals is extended by it. Without slow calls it is zero.
func opSlack(w *world.World) time.Duration {
	var m time.Duration
	now := w.S.Elapsed()
	for _, op := range w.Ops {
		end := op.T1
		if !op.Done {
			end = now // still in flight
		}
		if d := end - op.T0; d > m {
			m = d
		}
	}
	return m
}

func cacheKind(c world.PolicyCfg) string {
	switch {
	case c.SessionCache && c.SharedIKCache():
		return "session+shared"
	case c.SharedIKCache():
		return "shared"
	case !c.CacheIK && !c.CacheSK:
		return "none"
	case c.SessionCache:
		return "session"
	case !c.CacheIK:
		return "sk-only"
	default:
		return "per-session"
	}
}

// hostZones: the host's local time zone is not UTC everywhere; some zones have daylight-saving
// transitions (a day that lasts 23 or 25 hours) inside a key's lifetime. Each entry starts the run a
// few weeks before one of that zone's transitions.
var hostZones = []struct {
	name  string
	epoch time.Time
}{
	{"Europe/Berlin", time.Date(2030, 10, 1, 0, 0, 30, 0, time.UTC)},        // falls back on 2030-10-27
	{"America/Los_Angeles", time.Date(2030, 10, 20, 0, 0, 30, 0, time.UTC)}, // falls back on 2030-11-03
	{"Australia/Sydney", time.Date(2030, 3, 20, 0, 0, 30, 0, time.UTC)},     // falls back on 2030-04-07
	{"Europe/Berlin", time.Date(2030, 3, 10, 0, 0, 30, 0, time.UTC)},        // springs forward on 2030-03-31
	{"Asia/Kolkata", time.Date(2030, 1, 1, 0, 0, 30, 0, time.UTC)},          // no transitions, +05:30
}

// useHostZone installs one of hostZones as time.Local for the run (a quarter of the runs) and
// returns the function that restores UTC.
func useHostZone(t *simrt.Tape, cfg *simrt.Config, faults map[string]int) func() {
	if t.Choose(4, "host-timezone") != 1 {
		return func() {}
	}
	z := hostZones[t.Choose(len(hostZones), "host-timezone.which")]
	loc, err := time.LoadLocation(z.name)
	if err != nil {
		return func() {}
	}
	old := time.Local
	time.Local = loc
	cfg.Epoch = z.epoch
	if faults != nil {
		faults["host.timezone-with-dst"]++
	}
	return func() { time.Local = old }
}

func runC04(t *simrt.Tape, o Opts) Outcome {
	cfg := schedCfg(t, o, false)
	defer useHostZone(t, &cfg, nil)()
	var w *world.World
	var st Stats
	s := simrt.Run(t, cfg, func(s *simrt.Sim) {
		w = world.New(s, "C04")
		if time.Local != time.UTC {
			w.Faults.Fired["host.timezone-not-utc"]++
		}
		st.Oracle = map[string]int{}
		h := &hist{w: w, t: t, parts: world.Partitions[:1+t.Choose(3, "nparts")], maxProc: 2, samePolicyTimes: true}
		h.gen = world.GenOpts{ShortExpiry: t.Choose(4, "shortexp") != 0, SmallCaps: t.Choose(3, "smallcaps") == 1, AllowTinyLFU: allowTinyLFU}
		h.weights = [opKinds]int{opEncrypt: 10, opDecrypt: 1, opOpen: 1, opCloseSess: 1, opAdvance: 7, opRevoke: 1, opForeignRotate: 1, opRestart: 1, opNewProc: 1, opBurst: 1}
		h.payloadClasses = []int{2}
		skewed := t.Choose(4, "clock-skew") == 1
		if skewed {
			// hosts whose clocks disagree: every clause is judged on the acting process's own clock
			w.ClockSkews = []time.Duration{0}
		}
		h.newProc()
		pol := h.base
		if skewed {
			w.ClockSkews = clockSkewMenu(pol)
		}
		if t.Choose(3, "faulty") == 1 {
			// the metastore keeps accepting writes; reads and the KMS may fail
			enableRandomFaults(w, t, []string{"ms.err", "kms.err"}, pol.Expire, pol.Revoke)
			w.Faults.Kinds["ms.err"] = true
			w.Faults.Kinds["ms.readonly-faults"] = true
		}
		crossClass := map[string]bool{}
		switched := newSwitchLog()
		h.hooks.afterEncrypt = func(se *world.Sess, rec *world.Rec, op *world.OpRec) {
			if rec == nil {
				if op.Panic == "" && op.Faulted == 0 {
					w.Violate("encrypt-failed", "encrypt-failed/no-fault", "encrypt failed although the metastore accepts writes: %v", op.Err)
				}
				return
			}
			if storeFaulted(op) {
				return
			}
			f := factsFor(w, rec)
			t0 := unixAt(w, op.T0).Add(op.Skew)
			// "new keys are created, persisted and used": a cache that has already handed out a record
			// under a newer intermediate key does not go back to an older one whose parent has expired
			if !skewed && f.skRow != nil {
				count(st.Oracle, "no-return-to-replaced-key")
				if newer, ok := switched.wentBack(scopeOf(se)+"|"+se.Part, rec.IKCreated, op.Idx); ok && t0.After(time.Unix(f.skCreated, 0).Add(pol.Expire)) {
					w.Violate("returned-to-replaced-ik", "returned-to-IK-under-expired-SK/cache="+cacheKind(se.P.Cfg), "encrypt (op %d) named IK %s@%d, whose parent SK @%d is expired, although an earlier, already completed encrypt on the same cache had switched to the newer IK @%d", op.Idx, rec.IKID, rec.IKCreated, f.skCreated, newer)
				}
			}
			switched.note(scopeOf(se)+"|"+se.Part, rec.IKCreated, len(w.Ops))
			stampNow := truncUnix(t0, pol.Precision)
			// clause 1: the named IK is not older than the key lifetime at invocation time
			count(st.Oracle, "ik-age")
			ikExpiry := time.Unix(rec.IKCreated, 0).Add(pol.Expire)
			if t0.After(ikExpiry) {
				if !t0.Before(laterStampFrom(rec.IKCreated, pol.Precision)) {
					w.Violate("expired-ik-used", "expired-IK-used/cache="+cacheKind(se.P.Cfg), "encrypt invoked at %s named IK %s@%d which expired at %s (lifetime %v); a later stamp %d was available", t0.UTC().Format(time.RFC3339), rec.IKID, rec.IKCreated, ikExpiry.UTC().Format(time.RFC3339), pol.Expire, stampNow)
				} else {
					count(st.Oracle, "exempt-no-later-stamp")
				}
			}
			if f.ikRow == nil {
				w.Violate("ik-not-persisted", "ik-not-persisted", "record names IK %s@%d which is not in the metastore", rec.IKID, rec.IKCreated)
				return
			}
			if f.skRow == nil {
				w.Violate("sk-not-persisted", "sk-not-persisted", "IK %s@%d names SK %s@%d which is not in the metastore", rec.IKID, rec.IKCreated, f.skID, f.skCreated)
				return
			}
			// clause 3: an IK whose parent SK has expired stops being used within one revoke-check interval
			count(st.Oracle, "parent-sk-age")
			skExpiry := time.Unix(f.skCreated, 0).Add(pol.Expire)
			if t0.After(skExpiry) {
				crossClass["sk-expired/"+cacheKind(se.P.Cfg)] = true
			}
			if t0.After(ikExpiry.Add(-pol.Expire / 4)) {
				crossClass["ik-old/"+cacheKind(se.P.Cfg)] = true
			}
			if from := maxTime(skExpiry, laterStampFrom(rec.IKCreated, pol.Precision), laterStampFrom(f.skCreated, pol.Precision)); t0.After(from.Add(pol.Revoke + opSlack(w))) {
				{
					w.Violate("ik-under-expired-sk", "IK-under-expired-SK-used/cache="+cacheKind(se.P.Cfg), "encrypt invoked at %s named IK %s@%d whose parent SK @%d expired at %s; a replacement could be created from %s on, more than one revoke-check interval (%v) earlier", t0.UTC().Format(time.RFC3339), rec.IKID, rec.IKCreated, f.skCreated, skExpiry.UTC().Format(time.RFC3339), from.UTC().Format(time.RFC3339), pol.Revoke)
				}
			} else if t0.After(skExpiry.Add(pol.Revoke)) {
				count(st.Oracle, "exempt-no-later-stamp")
			}
		}
		h.hooks.afterOp = func(k int) {
			// clause 2: every IK row written by the SDK names an SK that was not expired when the writing operation was invoked
			for _, e := range w.Store.Log[h.seenLog:] {
				if e.Kind != "insert" || len(e.By) < 4 || e.By[:4] != "sdk:" || e.Op < 0 {
					continue
				}
				row, _ := w.Store.Rows.Get(e.ID, e.Created)
				if row == nil || row.ParentKeyMeta == nil {
					continue
				}
				count(st.Oracle, "ik-row-parent-age")
				op := w.Ops[e.Op]
				t0 := unixAt(w, op.T0).Add(op.Skew)
				skExpiry := time.Unix(row.ParentKeyMeta.Created, 0).Add(pol.Expire)
				if t0.After(skExpiry) {
					if !t0.Before(laterStampFrom(row.ParentKeyMeta.Created, pol.Precision)) {
						w.Violate("ik-created-under-expired-sk", "IK-created-under-expired-SK", "operation %d invoked at %s stored IK %s@%d under SK @%d which had expired at %s", op.Idx, t0.UTC().Format(time.RFC3339), e.ID, e.Created, row.ParentKeyMeta.Created, skExpiry.UTC().Format(time.RFC3339))
					} else {
						count(st.Oracle, "exempt-no-later-stamp")
					}
				}
			}
			h.seenLog = len(w.Store.Log)
		}
		n := 8 + t.Choose(scale(o, 50, 150), "nops")
		for i := 0; i < n && len(w.Viols) == 0; i++ {
			h.step()
		}
		st.Nontrivial = len(crossClass) > 0
		st.Class = fmt.Sprintf("%s|%v", pol.Class(), keysOf(crossClass))
		st.Sample = map[string]any{"history": h.trace, "policy": pol.String()}
	})
	return finish(s, w, st, true)
}

func keysOf(m map[string]bool) []string {
	var ks []string
	for k := range m {
		ks = append(ks, k)
	}
	sortStrings(ks)
	return ks
}

func runC05(t *simrt.Tape, o Opts) Outcome {
	cfg := schedCfg(t, o, false)
	var w *world.World
	var st Stats
	s := simrt.Run(t, cfg, func(s *simrt.Sim) {
		w = world.New(s, "C05")
		st.Oracle = map[string]int{}
		h := &hist{w: w, t: t, parts: world.Partitions[:1+t.Choose(3, "nparts")], maxProc: 2, samePolicyTimes: true}
		h.gen = world.GenOpts{SmallCaps: t.Choose(3, "smallcaps") == 1, AllowTinyLFU: allowTinyLFU, ZeroExpiry: true}
		h.weights = [opKinds]int{opEncrypt: 10, opDecrypt: 2, opOpen: 1, opCloseSess: 1, opAdvance: 6, opRevoke: 3, opForeignRotate: 1, opRestart: 1, opNewProc: 1, opBurst: 1}
		h.payloadClasses = []int{2}
		skewed := t.Choose(4, "clock-skew") == 1
		if skewed {
			w.ClockSkews = []time.Duration{0}
		}
		h.newProc()
		pol := h.base
		if skewed {
			w.ClockSkews = clockSkewMenu(pol)
		}
		if t.Choose(3, "faulty") == 1 {
			// read-side and KMS failures only: the property presupposes that a replacement key can be created
			enableRandomFaults(w, t, []string{"ms.err", "kms.err"}, pol.Expire, pol.Revoke)
			w.Faults.Kinds["ms.err"] = true
			w.Faults.Kinds["ms.readonly-faults"] = true
		}
		if !skewed && t.Choose(5, "kms-refuses-revoked") == 1 {
			// a persistent fault tied to the revocation: the revoked system key can no longer be unwrapped
			// (decrypts that need it fail, legitimately); a replacement can be created, so every clause
			// about new records stands, and an encrypt that fails is not excused by it
			w.KMSRefusesRevoked = true
		}
		classes := map[string]bool{}
		switched := newSwitchLog()
		used := map[string]bool{} // "proc|id@created" keys a process has produced records under
		h.hooks.afterEncrypt = func(se *world.Sess, rec *world.Rec, op *world.OpRec) {
			if rec == nil {
				if op.Refused > 0 && hadDuplicateInsert(w, op) {
					// the replacement collided with the revoked key's creation stamp (no later stamp can be
					// created yet), so the SDK fell back to the stored key - which the KMS refuses
					return
				}
				if op.Panic == "" && op.Faulted == 0 {
					w.Violate("encrypt-failed", "encrypt-failed/no-fault", "encrypt failed although nothing was injected: %v", op.Err)
				}
				return
			}
			if storeFaulted(op) {
				return // the replacement key could not be persisted in this very operation: exempt
			}
			f := factsFor(w, rec)
			t0 := op.T0
			// "switches to a newly created, persisted key": once a cache has handed out a record under a
			// newer intermediate key it does not go back to an older one that is revoked (or whose parent is)
			if !skewed {
				count(st.Oracle, "no-return-to-replaced-key")
				if newer, ok := switched.wentBack(scopeOf(se)+"|"+se.Part, rec.IKCreated, op.Idx); ok {
					_, ikRev := revokedBefore(w, rec.IKID, rec.IKCreated, t0)
					skRev := false
					if f.skRow != nil {
						_, skRev = revokedBefore(w, f.skID, f.skCreated, t0)
					}
					if ikRev || skRev {
						w.Violate("returned-to-replaced-ik", "returned-to-revoked-key/cache="+cacheKind(se.P.Cfg), "encrypt (op %d) named IK %s@%d, which is revoked (IK: %v, parent SK: %v), although an earlier, already completed encrypt on the same cache had switched to the newer IK @%d", op.Idx, rec.IKID, rec.IKCreated, ikRev, skRev, newer)
					}
				}
			}
			switched.note(scopeOf(se)+"|"+se.Part, rec.IKCreated, len(w.Ops))
			// intervals are differences of one process's clock readings, so a constant offset cancels;
			// only "a later creation stamp exists" compares a clock reading with a stamp
			local := func(d time.Duration) time.Time { return unixAt(w, d).Add(op.Skew) }
			stampNow := truncUnix(local(t0), pol.Precision)
			if f.ikRow == nil {
				w.Violate("ik-not-persisted", "ik-not-persisted", "record names IK %s@%d which is not in the metastore", rec.IKID, rec.IKCreated)
				return
			}
			count(st.Oracle, "ik-revocation-bound")
			if T, ok := revokedAt(w, rec.IKID, rec.IKCreated); ok && t0 > T+pol.Revoke {
				held := used[fmt.Sprintf("%d|%s@%d", se.P.ID, rec.IKID, rec.IKCreated)]
				classes[fmt.Sprintf("ik/%s/held=%v", cacheKind(se.P.Cfg), held)] = true
				// over the bound since the revocation, and a later creation stamp can be created now: a cache
				// that knows the key is revoked asks for a replacement at every call, so the first call
				// after the stamp boundary gets one
				if local(t0).After(local(T).Add(pol.Revoke+opSlack(w))) && local(t0).After(laterStampFrom(rec.IKCreated, pol.Precision).Add(opSlack(w))) {
					w.Violate("revoked-ik-used", "revoked-IK-used/cache="+cacheKind(se.P.Cfg), "encrypt invoked %v after IK %s@%d was flagged revoked in the metastore (revoke-check interval %v) still produced a record under it; a later stamp %d was available", t0-T, rec.IKID, rec.IKCreated, pol.Revoke, stampNow)
				} else {
					count(st.Oracle, "exempt-no-later-stamp")
				}
			}
			if f.skRow != nil {
				count(st.Oracle, "sk-revocation-bound")
				if T, ok := revokedAt(w, f.skID, f.skCreated); ok && t0 > T+2*pol.Revoke {
					classes[fmt.Sprintf("sk/%s", cacheKind(se.P.Cfg))] = true
					from := maxTime(local(T), laterStampFrom(rec.IKCreated, pol.Precision), laterStampFrom(f.skCreated, pol.Precision))
					if local(t0).After(from.Add(2*pol.Revoke + 2*opSlack(w))) {
						w.Violate("ik-under-revoked-sk-used", "IK-under-revoked-SK-used/cache="+cacheKind(se.P.Cfg), "encrypt invoked %v after SK %s@%d was flagged revoked (2 x revoke-check interval = %v) still produced a record under its child IK %s@%d", t0-T, f.skID, f.skCreated, 2*pol.Revoke, rec.IKID, rec.IKCreated)
					} else {
						count(st.Oracle, "exempt-no-later-stamp")
					}
				}
			}
			used[fmt.Sprintf("%d|%s@%d", se.P.ID, rec.IKID, rec.IKCreated)] = true
		}
		h.hooks.afterDecrypt = func(se *world.Sess, rec *world.Rec, got []byte, op *world.OpRec) {
			// records written under a (now) revoked key remain decryptable
			count(st.Oracle, "decrypt-under-revoked")
			if op.Panic == "" && op.Faulted == 0 && !(op.Refused > 0 && op.Err != nil) && (op.Err != nil || string(got) != string(rec.Payload)) {
				w.Violate("decrypt-failed", "decrypt-failed", "record r%d (IK@%d) no longer decrypts: %v", rec.N, rec.IKCreated, op.Err)
			}
		}
		n := 8 + t.Choose(scale(o, 50, 150), "nops")
		for i := 0; i < n && len(w.Viols) == 0; i++ {
			h.step()
		}
		st.Nontrivial = len(classes) > 0
		st.Class = fmt.Sprintf("%s|%v", pol.Class(), keysOf(classes))
		st.Sample = map[string]any{"history": h.trace, "policy": pol.String()}
	})
	return finish(s, w, st, true)
}

// storeFaulted reports whether a metastore write failed (was made to fail) inside the operation.
func storeFaulted(op *world.OpRec) bool {
	for _, f := range op.FaultDesc {
		if len(f) >= 8 && f[:8] == "ms.store" {
			return true
		}
	}
	return false
}

// clockSkewMenu: constant clock offsets between hosts, from sub-second to beyond the key lifetime.
func clockSkewMenu(pol world.PolicyCfg) []time.Duration {
	m := []time.Duration{0, 0, time.Second, -time.Second, 90 * time.Second, -90 * time.Second}
	for _, d := range []time.Duration{pol.Precision, pol.Revoke / 2, pol.Revoke * 2, pol.Expire / 2, pol.Expire * 2} {
		if d > 0 {
			m = append(m, d, -d)
		}
	}
	return m
}

// switchLog remembers, per cache scope and partition key id, which intermediate key generations
// completed encrypts have named, and how many operations had begun when each of them completed.
type switchLog struct {
	seen map[string][]switchEntry
}

type switchEntry struct {
	created  int64
	opsBegun int
}

func newSwitchLog() *switchLog { return &switchLog{seen: map[string][]switchEntry{}} }

func (l *switchLog) note(scope string, created int64, opsBegun int) {
	l.seen[scope] = append(l.seen[scope], switchEntry{created, opsBegun})
}

// wentBack reports the newest generation that an encrypt completed before operation opIdx began had
// already named on this scope, if it is newer than created.
func (l *switchLog) wentBack(scope string, created int64, opIdx int) (int64, bool) {
	var newest int64
	for _, e := range l.seen[scope] {
		if e.opsBegun <= opIdx && e.created > created && e.created > newest {
			newest = e.created
		}
	}
	return newest, newest != 0
}

// revokedBefore reports whether the key was flagged revoked in the metastore at or before t.
func revokedBefore(w *world.World, id string, created int64, t time.Duration) (time.Duration, bool) {
	T, ok := revokedAt(w, id, created)
	return T, ok && T <= t
}

// hadDuplicateInsert reports whether an insert of this operation was refused as a duplicate.
func hadDuplicateInsert(w *world.World, op *world.OpRec) bool {
	for _, c := range w.Calls {
		if c.Op == op && c.Class == "ms.store" && c.Result == "dup" {
			return true
		}
	}
	return false
}
