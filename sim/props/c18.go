package props

import (
	"bytes"
	"context"
	"encoding/base64"
	"encoding/json"
	"fmt"
	"strconv"
	"time"

	awsv1 "github.com/aws/aws-sdk-go/aws"
	sessv1 "github.com/aws/aws-sdk-go/aws/session"
	"github.com/godaddy/asherah/go/appencryption"
	"github.com/godaddy/asherah/go/appencryption/pkg/persistence"
	ddbv1 "github.com/godaddy/asherah/go/appencryption/plugins/aws-v1/persistence"
	ddbv2 "github.com/godaddy/asherah/go/appencryption/plugins/aws-v2/dynamodb/metastore"
	pb "github.com/godaddy/asherah/server/go/api"
	"github.com/godaddy/asherah/server/go/pkg/server"

	"verif/sim/fakes"
	"verif/sim/refimpl"
	"verif/sim/simrt"
	"verif/sim/world"
)

func init() {
	register(&Property{
		ID:    "C18",
		Level: "exploration",
		Rule: "one case = one simulated history in which the SDK and an independent implementation written from the documentation act as peers on one simulated metastore/KMS (with or without region-suffixed key ids): (a) everything the SDK emits - data row records as JSON, key records as JSON, SQL key_record text, DynamoDB items of both plugins, protobuf messages of the sidecar - is parsed strictly by the independent codec and decrypted by the independent decryptor from a store snapshot; (b) keys and records produced by the independent implementation are read by the SDK (JSON, SQL rows, DynamoDB items, protobuf); key hierarchies come from histories with rotation by expiry, revocation and by the peer; " +
			"non-trivial = both directions were exercised in the run; distinct = distinct (mode, suffix, policy class, formats touched, payload sizes) tuples",
		Run:         runC18,
		QuickSec:    12,
		ThoroughSec: 300,
		Assumptions: []string{
			"the schedule/fault dimension adds little to this property (DESIGN.md §7): what decides it is the independent codec; the simulation contributes key hierarchies produced by rotating and racing peers",
			"the documented shape is the one of docs/DesignAndArchitecture.md and docs/Metastore.md: Key/Data, Created, base64 Key, ParentKeyMeta{KeyId,Created}, Revoked only when true; ciphertext || 16-byte tag || 12-byte nonce",
		},
	})
}

func runC18(t *simrt.Tape, o Opts) Outcome {
	mode := t.Choose(4, "mode")
	cfg := schedCfg(t, o, false)
	var w *world.World
	var st Stats
	s := simrt.Run(t, cfg, func(s *simrt.Sim) {
		w = world.New(s, "C18")
		w.KeepEKRJSON = true
		st.Oracle = map[string]int{}
		if t.Choose(2, "suffix") == 1 {
			w.Suffix = []string{"us-west-2", "eu-central-1"}[t.Choose(2, "suffix.which")]
		}
		formats := map[string]bool{}
		sdkToRef, refToSdk := false, false
		switch mode {
		case 0, 1:
			h := &hist{w: w, t: t, parts: c18Parts(t), maxProc: 2, samePolicyTimes: true}
			h.gen = world.GenOpts{AllowTinyLFU: allowTinyLFU}
			h.weights = [opKinds]int{opEncrypt: 8, opDecrypt: 4, opOpen: 1, opAdvance: 2, opRevoke: 1, opForeignRotate: 2, opRestart: 1}
			h.payloadClasses = []int{2, 0, 1, 3, 4}
			h.newProc()
			pol := h.base
			h.hooks.afterEncrypt = func(se *world.Sess, rec *world.Rec, op *world.OpRec) {
				if rec == nil {
					return
				}
				count(st.Oracle, "sdk-record-parsed-by-reference")
				formats["drr-json"] = true
				d, err := refimpl.ParseDRR(rec.JSON)
				if err != nil {
					w.Violate("drr-json-shape", "drr-json-shape", "the JSON of a record produced by the SDK does not have the documented shape: %v\n%s", err, rec.JSON)
					return
				}
				if want := w.IKID(se.Part); d.Key.ParentKeyMeta.KeyID != want {
					w.Violate("key-id-format", "key-id-format/IK", "record names key id %q, the documented id for partition %q is %q", d.Key.ParentKeyMeta.KeyID, se.Part, want)
					return
				}
				data, _ := base64.StdEncoding.DecodeString(d.Data)
				if len(data) != len(rec.Payload)+16+12 {
					w.Violate("ciphertext-layout", "ciphertext-layout/length", "Data is %d bytes for a %d-byte payload (expected payload+16+12)", len(data), len(rec.Payload))
					return
				}
				got, err := refimpl.Decrypt(w.Store.Rows, w.KMS, rec.JSON)
				if err != nil || !bytes.Equal(got, rec.Payload) {
					w.Violate("reference-cannot-decrypt", "reference-cannot-decrypt", "the independent implementation cannot decrypt a record produced by the SDK: %v", err)
					return
				}
				sdkToRef = true
			}
			n := 5 + t.Choose(30, "nops")
			for i := 0; i < n && len(w.Viols) == 0; i++ {
				h.step()
				// the peer writes a record every now and then; the SDK must read it
				if t.Choose(4, "peer.write") == 0 && len(w.Viols) == 0 {
					part := h.pickPart()
					pl := w.Payload([]int{2, 0, 3}[t.Choose(3, "peer.payload")])
					if rec := w.Foreign().Write(part, pl); rec != nil {
						count(st.Oracle, "reference-record-read-by-sdk")
						se := h.sessionFor(part, true)
						if se == nil {
							continue
						}
						out, op := w.Decrypt(se, &rec.DRR)
						if op.Panic == "" && (op.Err != nil || !bytes.Equal(out, rec.Payload)) {
							w.Violate("sdk-cannot-read-reference", "sdk-cannot-read-reference/record", "the SDK cannot decrypt a record written by the independent implementation from the documentation: %v\n%s", op.Err, rec.JSON)
						}
						refToSdk = true
					}
				}
			}
			// key records as the SDK serializes them
			for _, d := range w.EKRJSON {
				count(st.Oracle, "sdk-key-record-parsed-by-reference")
				formats["ekr-json"] = true
				kr, err := refimpl.ParseKeyRecord(d.JSON)
				if err != nil {
					w.Violate("ekr-json-shape", "ekr-json-shape", "the JSON of a key record produced by the SDK does not have the documented shape: %v\n%s", err, d.JSON)
					break
				}
				if kr.Created != d.Created || !bytes.Equal(kr.KeyBytes(), d.EKR.EncryptedKey) {
					w.Violate("ekr-json-fields", "ekr-json-fields", "key record JSON does not carry Created/Key faithfully: %s", d.JSON)
					break
				}
				if bytes.Contains(d.JSON, []byte(`"Revoked"`)) && !d.EKR.Revoked {
					w.Violate("ekr-json-revoked", "ekr-json-revoked", "Revoked is present although false: %s", d.JSON)
					break
				}
			}
			var rowIDs []string
			for id := range w.Store.Rows {
				rowIDs = append(rowIDs, id)
			}
			sortStrings(rowIDs)
			for _, id := range rowIDs {
				count(st.Oracle, "key-id-format")
				okID := id == w.SKID()
				for _, p := range h.parts {
					if id == w.IKID(p) {
						okID = true
					}
				}
				if !okID {
					w.Violate("key-id-format", "key-id-format/row", "the metastore contains key id %q which is not a documented id for service %q product %q suffix %q", id, w.Service, w.Product, w.Suffix)
				}
			}
			st.Class = fmt.Sprintf("hist|%s|%s|%v", w.Suffix, pol.Class(), keysOf(formats))
		case 2:
			c18Stores(t, s, w, &st, formats, &sdkToRef, &refToSdk)
			st.Class = fmt.Sprintf("stores|%v", keysOf(formats))
		case 3:
			c18Proto(t, s, w, &st, formats, &sdkToRef, &refToSdk)
			st.Class = fmt.Sprintf("proto|%s", w.Suffix)
		}
		st.Nontrivial = sdkToRef && refToSdk
		st.Sample = map[string]any{"mode": mode, "suffix": w.Suffix, "formats": keysOf(formats)}
	})
	return finish(s, w, st, true)
}

func genEKR(rnd *simrt.Rand, id string, created int64) *appencryption.EnvelopeKeyRecord {
	key := make([]byte, 1+rnd.Intn(80))
	rnd.Fill(key)
	if rnd.Intn(3) == 0 {
		for i := range key {
			key[i] = byte(i * 7)
		}
	}
	e := &appencryption.EnvelopeKeyRecord{ID: id, Created: created, EncryptedKey: key, Revoked: rnd.Intn(3) == 0}
	if rnd.Intn(3) != 0 {
		e.ParentKeyMeta = &appencryption.KeyMeta{ID: "_SK_svc_prod", Created: created - int64(rnd.Intn(1000))}
	}
	return e
}

func sameEKR(a, b *appencryption.EnvelopeKeyRecord) bool { return ekrDigest(a) == ekrDigest(b) }

// c18Stores: SQL key_record text and both DynamoDB item shapes, in both directions.
func c18Stores(t *simrt.Tape, s *simrt.Sim, w *world.World, st *Stats, formats map[string]bool, sdkToRef, refToSdk *bool) {
	rnd := simrt.NewRand(uint64(t.Choose(1<<20, "seed")) + 23)
	id, created := "_IK_a_svc_prod", int64(1893456000+rnd.Intn(100000))
	e := genEKR(rnd, id, created)
	ctx := context.Background()
	// ---- SQL
	dialect := []string{"mysql", "postgres", "oracle"}[t.Choose(3, "dialect")]
	db := fakes.NewSQLDB(s, dialect)
	h := db.Open()
	defer h.Close()
	var sqlms *persistence.SQLMetastore
	viaSidecar := dialect == "mysql" && t.Choose(2, "sql.via-sidecar-config") == 1
	switch {
	case viaSidecar:
		// the metastore as the sidecar wires it up from its --metastore=rdbms options: its DSN
		// handling decides how `created` travels; the host's time zone is not UTC everywhere
		zones := []*time.Location{time.UTC, time.FixedZone("MST", -7*3600), time.FixedZone("IST", 5*3600+1800)}
		oldLocal := time.Local
		time.Local = zones[t.Choose(len(zones), "host.timezone")]
		fakes.CurrentMySQL = db
		server.VerifUseDBDriver(fakes.MySQLDriverName)
		defer func() {
			time.Local = oldLocal
			fakes.CurrentMySQL = nil
			server.VerifUseDBDriver("mysql")
		}()
		opts := &server.Options{Metastore: "rdbms", ConnectionString: "asherah:secret@tcp(db.internal:3306)/asherah"}
		if t.Choose(2, "sql.replica-read-consistency") == 1 {
			opts.ReplicaReadConsistency = "session"
		}
		var ok bool
		if sqlms, ok = server.NewMetastore(opts).(*persistence.SQLMetastore); !ok {
			w.Violate("sidecar-rdbms", "sidecar-rdbms", "the sidecar's rdbms option did not produce the SQL metastore")
			return
		}
		formats["sql-mysql-via-sidecar-options"] = true
		w.Faults.Fired["host.timezone-not-utc"] += map[bool]int{true: 1}[time.Local != time.UTC]
	case dialect == "mysql":
		sqlms = persistence.NewSQLMetastore(h)
	case dialect == "postgres":
		sqlms = persistence.NewSQLMetastore(h, persistence.WithSQLMetastoreDBType(persistence.Postgres))
	default:
		sqlms = persistence.NewSQLMetastore(h, persistence.WithSQLMetastoreDBType(persistence.Oracle))
	}
	formats["sql-"+dialect] = true
	if ok, err := sqlms.Store(ctx, id, created, e); !ok || err != nil {
		w.Violate("sql-store", "sql-store", "SQL metastore (%s) cannot store a record: %v", dialect, err)
		return
	}
	count(st.Oracle, "sql-row-parsed-by-reference")
	raw, ok := db.Raw(id, created)
	if !ok {
		w.Violate("sql-row-key", "sql-row-key", "the row is not stored under (id, created-as-timestamp)")
		return
	}
	kr, err := refimpl.ParseKeyRecord([]byte(raw))
	if err != nil {
		w.Violate("sql-key-record-shape", "sql-key-record-shape", "key_record text written by the SQL metastore is not the documented JSON: %v\n%s", err, raw)
		return
	}
	if kr.Created != e.Created || !bytes.Equal(kr.KeyBytes(), e.EncryptedKey) || kr.Revoked != e.Revoked || (kr.ParentKeyMeta == nil) != (e.ParentKeyMeta == nil) || (kr.ParentKeyMeta != nil && (kr.ParentKeyMeta.KeyID != e.ParentKeyMeta.ID || kr.ParentKeyMeta.Created != e.ParentKeyMeta.Created)) {
		w.Violate("sql-key-record-fields", "sql-key-record-fields", "key_record text does not carry the record's fields: %s", raw)
		return
	}
	*sdkToRef = true
	// reference writes a row, SDK reads it
	e2 := genEKR(rnd, id, created+60)
	var pm *refimpl.KeyMeta
	if e2.ParentKeyMeta != nil {
		pm = &refimpl.KeyMeta{KeyID: e2.ParentKeyMeta.ID, Created: e2.ParentKeyMeta.Created}
	}
	db.PutRaw(id, created+60, string(refimpl.MakeKeyRecord(e2.Created, e2.EncryptedKey, pm, e2.Revoked)))
	count(st.Oracle, "reference-sql-row-read-by-sdk")
	got, err := sqlms.Load(ctx, id, created+60)
	if err != nil || got == nil || !sameEKR(got, e2) {
		w.Violate("sdk-cannot-read-reference", "sdk-cannot-read-reference/sql-row", "the SQL metastore cannot load a documented-format row written by an independent implementation: %v", err)
		return
	}
	if latest, err := sqlms.LoadLatest(ctx, id); err != nil || latest == nil || !sameEKR(latest, e2) {
		w.Violate("sdk-cannot-read-reference", "sdk-cannot-read-reference/sql-latest", "LoadLatest does not return the newest documented-format row: %v", err)
		return
	}
	*refToSdk = true
	// ---- DynamoDB (both plugins)
	for _, ver := range []int{1, 2} {
		table := "EncryptionKey"
		d := fakes.NewDDB(s, table)
		var ms appencryption.Metastore
		if ver == 1 {
			sess := sessv1.Must(sessv1.NewSession(&awsv1.Config{Region: awsv1.String("us-west-2")}))
			ms = ddbv1.NewDynamoDBMetastore(sess, ddbv1.WithClient(fakes.V1{D: d}))
		} else {
			m, err := ddbv2.NewDynamoDB(ddbv2.WithDynamoDBClient(fakes.V2{D: d, Region: "us-west-2"}))
			if err != nil {
				w.Violate("ddb-construct", "ddb-construct", "%v", err)
				return
			}
			ms = m
		}
		formats[fmt.Sprintf("dynamodb-v%d", ver)] = true
		if ok, err := ms.Store(ctx, id, created, e); !ok || err != nil {
			w.Violate("ddb-store", fmt.Sprintf("ddb-store/v%d", ver), "DynamoDB v%d metastore cannot store a record: %v", ver, err)
			return
		}
		count(st.Oracle, "dynamodb-item-parsed-by-reference")
		it, ok := d.RawItem(table, id, created)
		if !ok {
			w.Violate("ddb-item-key", fmt.Sprintf("ddb-item-key/v%d", ver), "the item is not stored under Id (S) / Created (N)")
			return
		}
		if msg := checkDDBItem(it, e); msg != "" {
			w.Violate("ddb-item-shape", fmt.Sprintf("ddb-item-shape/v%d", ver), "item written by the v%d metastore does not have the documented shape: %s\n%+v", ver, msg, it)
			return
		}
		// reference writes an item, SDK reads it
		d.PutRaw(table, makeDDBItem(id, e2))
		count(st.Oracle, "reference-dynamodb-item-read-by-sdk")
		got, err := ms.Load(ctx, id, e2.Created)
		if err != nil || got == nil || !sameEKR(got, e2) {
			w.Violate("sdk-cannot-read-reference", fmt.Sprintf("sdk-cannot-read-reference/ddb-item-v%d", ver), "the v%d DynamoDB metastore cannot load a documented-format item written by an independent implementation: %v (got %+v)", ver, err, got)
			return
		}
	}
}

func makeDDBItem(id string, e *appencryption.EnvelopeKeyRecord) fakes.Item {
	kr := map[string]fakes.Val{
		"Created": {Kind: 'N', S: strconv.FormatInt(e.Created, 10)},
		"Key":     {Kind: 'S', S: base64.StdEncoding.EncodeToString(e.EncryptedKey)},
	}
	if e.Revoked {
		kr["Revoked"] = fakes.Val{Kind: 'B', B: true}
	}
	if e.ParentKeyMeta != nil {
		kr["ParentKeyMeta"] = fakes.Val{Kind: 'M', M: map[string]fakes.Val{
			"KeyId":   {Kind: 'S', S: e.ParentKeyMeta.ID},
			"Created": {Kind: 'N', S: strconv.FormatInt(e.ParentKeyMeta.Created, 10)},
		}}
	}
	return fakes.Item{"Id": {Kind: 'S', S: id}, "Created": {Kind: 'N', S: strconv.FormatInt(e.Created, 10)}, "KeyRecord": {Kind: 'M', M: kr}}
}

func checkDDBItem(it fakes.Item, e *appencryption.EnvelopeKeyRecord) string {
	kr, ok := it["KeyRecord"]
	if !ok || kr.Kind != 'M' {
		return "no KeyRecord map"
	}
	if len(it) != 3 {
		return fmt.Sprintf("%d top-level attributes, expected Id, Created, KeyRecord", len(it))
	}
	m := kr.M
	if m["Created"].Kind != 'N' || m["Created"].S != strconv.FormatInt(e.Created, 10) {
		return "KeyRecord.Created is not the number"
	}
	if m["Key"].Kind != 'S' || m["Key"].S != base64.StdEncoding.EncodeToString(e.EncryptedKey) {
		return "KeyRecord.Key is not the base64 string of the encrypted key"
	}
	if r, ok := m["Revoked"]; e.Revoked != (ok && r.Kind == 'B' && r.B) || (ok && !e.Revoked) {
		return "Revoked must be present exactly when true"
	}
	pm, ok := m["ParentKeyMeta"]
	if (e.ParentKeyMeta != nil) != ok {
		return "ParentKeyMeta presence"
	}
	if ok && (pm.Kind != 'M' || pm.M["KeyId"].S != e.ParentKeyMeta.ID || pm.M["Created"].Kind != 'N' || pm.M["Created"].S != strconv.FormatInt(e.ParentKeyMeta.Created, 10)) {
		return "ParentKeyMeta{KeyId, Created}"
	}
	for k := range m {
		switch k {
		case "Created", "Key", "Revoked", "ParentKeyMeta":
		default:
			return "unexpected attribute " + k
		}
	}
	return ""
}

// c18Proto: the sidecar's protobuf mapping in both directions.
func c18Proto(t *simrt.Tape, s *simrt.Sim, w *world.World, st *Stats, formats map[string]bool, sdkToRef, refToSdk *bool) {
	pol := world.PolicyCfg{CacheSK: true, CacheIK: true, SKCap: 1000, IKCap: 1000, Expire: expiresC02, Revoke: revokesC02, Precision: precisionC02}
	p := w.NewProc(pol)
	svc := server.NewAppEncryptionWithFactory(p.Factory)
	formats["protobuf"] = true
	payload := w.Payload([]int{2, 0, 3}[t.Choose(3, "payload")])
	// the partition id is the caller's free text, transported verbatim (surrounding blanks included)
	part0 := []string{"a", "a", "pad  ", " lead", "tenant/7", "ünï-ço∂e"}[t.Choose(6, "proto.partition")]
	peer := w.Foreign().Write(part0, w.Payload(2))
	// let time pass so that data-key and intermediate-key creation stamps differ (a swapped or
	// dropped timestamp in the mapping must not hide behind equal values)
	w.Advance(time.Duration(37+t.Choose(100, "proto.gap")) * time.Second)
	ms := &memStream{s: s, recvErrAt: -1, sendErrAt: -1}
	ms.reqs = []*pb.SessionRequest{
		{Request: &pb.SessionRequest_GetSession{GetSession: &pb.GetSession{PartitionId: part0}}},
		{Request: &pb.SessionRequest_Encrypt{Encrypt: &pb.Encrypt{Data: payload}}},
	}
	if peer != nil {
		var d refimpl.DataRowRecord
		json.Unmarshal(peer.JSON, &d)
		data, _ := base64.StdEncoding.DecodeString(d.Data)
		ms.reqs = append(ms.reqs, &pb.SessionRequest{Request: &pb.SessionRequest_Decrypt{Decrypt: &pb.Decrypt{DataRowRecord: &pb.DataRowRecord{
			Data: data,
			Key:  &pb.EnvelopeKeyRecord{Created: d.Key.Created, Key: d.Key.KeyBytes(), ParentKeyMeta: &pb.KeyMeta{KeyId: d.Key.ParentKeyMeta.KeyID, Created: d.Key.ParentKeyMeta.Created}},
		}}}})
	}
	// other clients of the same sidecar, on their own streams and partitions, at the same time
	var others []*simrt.Task
	for i, n := 0, t.Choose(3, "proto.other-streams"); i < n; i++ {
		part := []string{"b", "part_with_underscore"}[i]
		others = append(others, s.Go("other-stream", func() {
			o := &memStream{s: s, recvErrAt: -1, sendErrAt: -1}
			o.reqs = []*pb.SessionRequest{{Request: &pb.SessionRequest_GetSession{GetSession: &pb.GetSession{PartitionId: part}}}}
			for k := 0; k < 3; k++ {
				o.reqs = append(o.reqs, &pb.SessionRequest{Request: &pb.SessionRequest_Encrypt{Encrypt: &pb.Encrypt{Data: []byte("other client's payload")}}})
			}
			svc.Session(o)
		}))
	}
	defer func() {
		for _, tk := range others {
			s.Join(tk)
		}
	}()
	if err := svc.Session(ms); err != nil || len(ms.sent) != len(ms.reqs) {
		w.Violate("sidecar", "sidecar", "sidecar stream failed: %v (%d responses)", err, len(ms.sent))
		return
	}
	er := ms.sent[1].GetEncryptResponse()
	if er == nil {
		w.Violate("sidecar-encrypt", "sidecar-encrypt", "sidecar encrypt returned %v", ms.sent[1])
		return
	}
	count(st.Oracle, "protobuf-record-read-by-reference")
	pd := er.GetDataRowRecord()
	doc, _ := json.Marshal(refimpl.DataRowRecord{
		Data: base64.StdEncoding.EncodeToString(pd.GetData()),
		Key: &refimpl.KeyRecord{Created: pd.GetKey().GetCreated(), Key: base64.StdEncoding.EncodeToString(pd.GetKey().GetKey()),
			ParentKeyMeta: &refimpl.KeyMeta{KeyID: pd.GetKey().GetParentKeyMeta().GetKeyId(), Created: pd.GetKey().GetParentKeyMeta().GetCreated()}},
	})
	got, err := refimpl.Decrypt(w.Store.Rows, w.KMS, doc)
	if err != nil || !bytes.Equal(got, payload) {
		w.Violate("reference-cannot-decrypt", "reference-cannot-decrypt/protobuf", "the independent implementation cannot decrypt a record returned by the sidecar (protobuf field mapping): %v", err)
		return
	}
	*sdkToRef = true
	if peer != nil {
		count(st.Oracle, "reference-record-read-through-protobuf")
		dr := ms.sent[2].GetDecryptResponse()
		if dr == nil || !bytes.Equal(dr.GetData(), peer.Payload) {
			w.Violate("sdk-cannot-read-reference", "sdk-cannot-read-reference/protobuf", "the sidecar cannot decrypt a documented-format record sent as protobuf: %v", ms.sent[2])
			return
		}
		*refToSdk = true
	}
}

// c18Parts draws 1-4 partition ids from a pool that includes ids with characters that are special
// to formatters, encoders and parsers (ids are caller-supplied free text).
func c18Parts(t *simrt.Tape) []string {
	pool := []string{"a", "part_with_underscore", "7", "user%40example.com", "100%s", "tenant/7", "spa ce", "ünï-ço∂e", "q\"uote", "b", "pad  ", " lead"}
	n := 1 + t.Choose(4, "nparts")
	start := t.Choose(len(pool), "part.start")
	step := []int{1, 3, 7}[t.Choose(3, "part.step")]
	var out []string
	seen := map[string]bool{}
	for i := 0; len(out) < n && i < len(pool); i++ {
		p := pool[(start+i*step)%len(pool)]
		if !seen[p] {
			seen[p] = true
			out = append(out, p)
		}
	}
	return out
}
