module verif/sim

go 1.23.0

require (
	github.com/anishathalye/porcupine v1.3.0
	github.com/awnumar/memcall v0.4.0
	github.com/aws/aws-sdk-go v1.55.6
	github.com/aws/aws-sdk-go-v2 v1.36.3
	github.com/aws/aws-sdk-go-v2/service/dynamodb v1.42.4
	github.com/aws/aws-sdk-go-v2/service/kms v1.38.3
	github.com/go-sql-driver/mysql v1.9.2
	github.com/godaddy/asherah/go/appencryption v0.7.1
	github.com/godaddy/asherah/go/securememory v0.1.6
	github.com/godaddy/asherah/server/go v0.0.0
	github.com/golang/protobuf v1.5.4
	google.golang.org/grpc v1.71.1
	google.golang.org/protobuf v1.36.4
)

require (
	filippo.io/edwards25519 v1.1.0 // indirect
	github.com/awnumar/memguard v0.22.5 // indirect
	github.com/aws/aws-sdk-go-v2/config v1.29.14 // indirect
	github.com/aws/aws-sdk-go-v2/credentials v1.17.67 // indirect
	github.com/aws/aws-sdk-go-v2/feature/dynamodb/attributevalue v1.18.12 // indirect
	github.com/aws/aws-sdk-go-v2/feature/dynamodb/expression v1.7.79 // indirect
	github.com/aws/aws-sdk-go-v2/feature/ec2/imds v1.16.30 // indirect
	github.com/aws/aws-sdk-go-v2/internal/configsources v1.3.34 // indirect
	github.com/aws/aws-sdk-go-v2/internal/endpoints/v2 v2.6.34 // indirect
	github.com/aws/aws-sdk-go-v2/internal/ini v1.8.3 // indirect
	github.com/aws/aws-sdk-go-v2/service/dynamodbstreams v1.25.3 // indirect
	github.com/aws/aws-sdk-go-v2/service/internal/accept-encoding v1.12.3 // indirect
	github.com/aws/aws-sdk-go-v2/service/internal/endpoint-discovery v1.10.15 // indirect
	github.com/aws/aws-sdk-go-v2/service/internal/presigned-url v1.12.15 // indirect
	github.com/aws/aws-sdk-go-v2/service/sso v1.25.3 // indirect
	github.com/aws/aws-sdk-go-v2/service/ssooidc v1.30.1 // indirect
	github.com/aws/aws-sdk-go-v2/service/sts v1.33.19 // indirect
	github.com/aws/smithy-go v1.22.2 // indirect
	github.com/jmespath/go-jmespath v0.4.0 // indirect
	github.com/pkg/errors v0.9.1 // indirect
	github.com/rcrowley/go-metrics v0.0.0-20201227073835-cf1acfcdf475 // indirect
	golang.org/x/crypto v0.35.0 // indirect
	golang.org/x/net v0.36.0 // indirect
	golang.org/x/sys v0.32.0 // indirect
	golang.org/x/text v0.22.0 // indirect
	google.golang.org/genproto v0.0.0-20230410155749-daa745c078e1 // indirect
)

replace github.com/godaddy/asherah/go/appencryption => /repo/go/appencryption

replace github.com/godaddy/asherah/go/securememory => /repo/go/securememory

replace github.com/godaddy/asherah/server/go => /repo/server/go
