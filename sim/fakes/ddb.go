// Package fakes holds semantic fakes of the external back ends, written from their public
// documentation: DynamoDB (primary + lagging replica), a database/sql driver with the documented
// schema. Every back-end call is a scheduling point of the simulator.
package fakes

import (
	"errors"
	"fmt"
	"regexp"
	"sort"
	"strconv"
	"strings"

	"verif/sim/simrt"
)

// Val is a neutral DynamoDB attribute value.
type Val struct {
	Kind byte // 'S', 'N', 'M', 'B' (bool), 'Z' (null)
	S    string
	M    map[string]Val
	B    bool
}

// Item is a DynamoDB item.
type Item map[string]Val

func (v Val) clone() Val {
	if v.Kind != 'M' {
		return v
	}
	m := map[string]Val{}
	for k, x := range v.M {
		m[k] = x.clone()
	}
	return Val{Kind: 'M', M: m}
}

func (it Item) clone() Item {
	out := Item{}
	for k, v := range it {
		out[k] = v.clone()
	}
	return out
}

// ErrConditional is returned when a condition expression fails.
var ErrConditional = errors.New("ConditionalCheckFailedException")

// ErrInjected is an injected back-end failure.
var ErrInjected = errors.New("verif: injected back-end failure")

// HarnessError marks requests the fake does not understand (never guessed at).
type HarnessError struct{ Msg string }

func (h HarnessError) Error() string { return "fake dynamodb: unsupported request: " + h.Msg }

type ddbWrite struct {
	table string
	item  Item
}

// DDB is the fake service: a strongly consistent primary and a replica that applies writes after a lag.
type DDB struct {
	S *simrt.Sim
	T *simrt.Tape
	// table -> Id -> Created(N as string) -> item
	primary map[string]map[string]map[string]Item
	writes  []ddbWrite
	applied int // prefix of writes visible on the replica
	Lag     bool
	Faults  bool // inject throttling / lost acknowledgements
	Stats   map[string]int
	FaultOf map[int]string // task id -> fault injected into that task's current call
}

// NewDDB creates the fake with the given tables.
func NewDDB(s *simrt.Sim, tables ...string) *DDB {
	d := &DDB{S: s, T: s.Tape, primary: map[string]map[string]map[string]Item{}, Stats: map[string]int{}}
	for _, t := range tables {
		d.primary[t] = map[string]map[string]Item{}
	}
	return d
}

func (d *DDB) fault(class string) string {
	if d.FaultOf == nil {
		d.FaultOf = map[int]string{}
	}
	if !d.Faults {
		return ""
	}
	if !d.T.Chance(1, 8, "ddb.fault?") {
		return ""
	}
	k := []string{"before", "after"}[d.T.Choose(2, "ddb.fault.kind")]
	d.Stats["fault:"+class+":"+k]++
	d.FaultOf[d.S.Cur().ID] = k
	return k
}

func (d *DDB) replicaView() map[string]map[string]map[string]Item {
	if d.Lag {
		rem := len(d.writes) - d.applied
		if rem > 0 && d.T.Choose(3, "ddb.replica.catchup") == 2 {
			d.applied += 1 + d.T.Choose(rem, "ddb.replica.n")
		}
	} else {
		d.applied = len(d.writes)
	}
	v := map[string]map[string]map[string]Item{}
	for t := range d.primary {
		v[t] = map[string]map[string]Item{}
	}
	for _, w := range d.writes[:d.applied] {
		id, c := w.item["Id"].S, w.item["Created"].S
		if v[w.table][id] == nil {
			v[w.table][id] = map[string]Item{}
		}
		v[w.table][id][c] = w.item
	}
	if d.applied < len(d.writes) {
		d.Stats["stale_reads_served"]++
	}
	return v
}

func project(it Item, proj string, names map[string]string) (Item, error) {
	if proj == "" {
		return it.clone(), nil
	}
	out := Item{}
	for _, p := range strings.Split(proj, ",") {
		p = strings.TrimSpace(p)
		n, ok := names[p]
		if !ok {
			if strings.HasPrefix(p, "#") {
				return nil, HarnessError{"projection placeholder " + p + " not in ExpressionAttributeNames"}
			}
			n = p
		}
		if v, ok := it[n]; ok {
			out[n] = v.clone()
		}
	}
	return out, nil
}

// GetItem implements the documented subset of GetItem.
func (d *DDB) GetItem(table string, key Item, consistent bool, proj string, names map[string]string) (Item, error) {
	d.S.Point(simrt.KSeam, "ddb.getitem")
	d.Stats["GetItem"]++
	if f := d.fault("GetItem"); f != "" {
		return nil, ErrInjected
	}
	tbl, ok := d.primary[table]
	if !ok {
		return nil, fmt.Errorf("ResourceNotFoundException: table %q", table)
	}
	if len(key) != 2 || key["Id"].Kind != 'S' || key["Created"].Kind != 'N' {
		return nil, fmt.Errorf("ValidationException: key does not match the table schema (Id S, Created N): %v", key)
	}
	if _, err := strconv.ParseInt(key["Created"].S, 10, 64); err != nil {
		return nil, fmt.Errorf("ValidationException: Created is not a number")
	}
	view := tbl
	if !consistent {
		d.Stats["nonconsistent_reads"]++
		view = d.replicaView()[table]
	}
	it, ok := view[key["Id"].S][key["Created"].S]
	d.S.Point(simrt.KSeam, "ddb.getitem.ret")
	if !ok {
		return nil, nil
	}
	return project(it, proj, names)
}

// PutItem implements PutItem with the attribute_not_exists condition.
func (d *DDB) PutItem(table string, item Item, cond string, names map[string]string, values map[string]Val) error {
	d.S.Point(simrt.KSeam, "ddb.putitem")
	d.Stats["PutItem"]++
	f := d.fault("PutItem")
	if f == "before" {
		return ErrInjected
	}
	tbl, ok := d.primary[table]
	if !ok {
		return fmt.Errorf("ResourceNotFoundException: table %q", table)
	}
	if item["Id"].Kind != 'S' || item["Created"].Kind != 'N' {
		return fmt.Errorf("ValidationException: item lacks key attributes Id (S) / Created (N)")
	}
	id, c := item["Id"].S, item["Created"].S
	if strings.TrimSpace(cond) != "" {
		// the condition is evaluated against the item currently stored under the same primary key
		var stored Item
		if it, exists := tbl[id][c]; exists {
			stored = it
		}
		okc, err := EvalCondition(cond, stored, names, values)
		if err != nil {
			return HarnessError{"condition expression " + cond + ": " + err.Error()}
		}
		if !okc {
			d.S.Point(simrt.KSeam, "ddb.putitem.ret")
			return ErrConditional
		}
	}
	if tbl[id] == nil {
		tbl[id] = map[string]Item{}
	}
	tbl[id][c] = item.clone()
	d.writes = append(d.writes, ddbWrite{table, item.clone()})
	d.S.Point(simrt.KSeam, "ddb.putitem.ret")
	if f == "after" {
		return ErrInjected
	}
	return nil
}

// Query implements `#k = :v` key conditions with ScanIndexForward and Limit.
// Query returns, besides the items, the LastEvaluatedKey: as in the service it is set whenever Limit
// stopped the query (whether or not more items follow), and ExclusiveStartKey resumes after it.
func (d *DDB) Query(table, keyCond string, names map[string]string, values map[string]Val, consistent bool, forward bool, limit int, proj string, startKey Item) ([]Item, Item, error) {
	d.S.Point(simrt.KSeam, "ddb.query")
	d.Stats["Query"]++
	if f := d.fault("Query"); f != "" {
		return nil, nil, ErrInjected
	}
	tbl, ok := d.primary[table]
	if !ok {
		return nil, nil, fmt.Errorf("ResourceNotFoundException: table %q", table)
	}
	// key condition: partitionKey = :v [AND sortKey <op> :w], op one of = < <= > >= (documented forms;
	// BETWEEN and begins_with are not understood and reported as such)
	clauses := splitKeyCondition(keyCond)
	if len(clauses) == 0 || len(clauses) > 2 {
		return nil, nil, HarnessError{"key condition " + keyCond}
	}
	resolve := func(n string) string {
		if a, ok := names[n]; ok {
			return a
		}
		return n
	}
	if clauses[0].op != "=" {
		return nil, nil, HarnessError{"key condition " + keyCond}
	}
	val, ok := values[clauses[0].rhs]
	if resolve(clauses[0].lhs) != "Id" || !ok || val.Kind != 'S' {
		return nil, nil, HarnessError{"key condition must start with Id = :value, got " + keyCond}
	}
	sortOK := func(int64) bool { return true }
	if len(clauses) == 2 {
		c := clauses[1]
		bound, ok := values[c.rhs]
		if resolve(c.lhs) != "Created" || !ok {
			return nil, nil, HarnessError{"key condition " + keyCond}
		}
		if bound.Kind != 'N' {
			return nil, nil, fmt.Errorf("ValidationException: One or more parameter values were invalid: Condition parameter type does not match schema type")
		}
		b, err := strconv.ParseInt(bound.S, 10, 64)
		if err != nil {
			return nil, nil, HarnessError{"sort key bound " + bound.S}
		}
		switch c.op {
		case "=":
			sortOK = func(x int64) bool { return x == b }
		case "<":
			sortOK = func(x int64) bool { return x < b }
		case "<=":
			sortOK = func(x int64) bool { return x <= b }
		case ">":
			sortOK = func(x int64) bool { return x > b }
		case ">=":
			sortOK = func(x int64) bool { return x >= b }
		default:
			return nil, nil, HarnessError{"key condition " + keyCond}
		}
	}
	view := tbl
	if !consistent {
		d.Stats["nonconsistent_reads"]++
		view = d.replicaView()[table]
	}
	var cs []int64
	for c := range view[val.S] {
		x, _ := strconv.ParseInt(c, 10, 64)
		if sortOK(x) {
			cs = append(cs, x)
		}
	}
	sort.Slice(cs, func(i, j int) bool {
		if forward {
			return cs[i] < cs[j]
		}
		return cs[i] > cs[j]
	})
	var out []Item
	var last Item
	skipping := startKey != nil
	for _, c := range cs {
		if skipping {
			if strconv.FormatInt(c, 10) == startKey["Created"].S {
				skipping = false
			}
			continue
		}
		if limit > 0 && len(out) == limit {
			break
		}
		it, err := project(view[val.S][strconv.FormatInt(c, 10)], proj, names)
		if err != nil {
			return nil, nil, err
		}
		out = append(out, it)
		if limit > 0 && len(out) == limit {
			last = Item{"Id": {Kind: 'S', S: val.S}, "Created": {Kind: 'N', S: strconv.FormatInt(c, 10)}}
		}
	}
	d.S.Point(simrt.KSeam, "ddb.query.ret")
	return out, last, nil
}

// RawItem returns the stored item.
func (d *DDB) RawItem(table, id string, created int64) (Item, bool) {
	it, ok := d.primary[table][id][strconv.FormatInt(created, 10)]
	return it, ok
}

// PutRaw inserts an item directly (an independent writer).
func (d *DDB) PutRaw(table string, it Item) {
	id, c := it["Id"].S, it["Created"].S
	if d.primary[table][id] == nil {
		d.primary[table][id] = map[string]Item{}
	}
	d.primary[table][id][c] = it.clone()
	d.writes = append(d.writes, ddbWrite{table, it.clone()})
}

type keyClause struct{ lhs, op, rhs string }

// splitKeyCondition parses "a = :x", "(a = :x) AND (b <= :y)", "a = :x and b > :y".
func splitKeyCondition(kc string) []keyClause {
	var out []keyClause
	for _, part := range regexp.MustCompile(`(?i)\s+and\s+`).Split(strings.TrimSpace(kc), -1) {
		part = strings.TrimSpace(part)
		for strings.HasPrefix(part, "(") && strings.HasSuffix(part, ")") {
			part = strings.TrimSpace(part[1 : len(part)-1])
		}
		m := regexp.MustCompile(`^(\S+?)\s*(<=|>=|=|<|>)\s*(\S+)$`).FindStringSubmatch(part)
		if m == nil {
			return nil
		}
		out = append(out, keyClause{m[1], m[2], m[3]})
	}
	return out
}
