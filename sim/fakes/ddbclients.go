package fakes

import (
	"context"
	"errors"
	"verif/sim/simrt"

	awsv2 "github.com/aws/aws-sdk-go-v2/aws"
	ddbv2 "github.com/aws/aws-sdk-go-v2/service/dynamodb"
	typesv2 "github.com/aws/aws-sdk-go-v2/service/dynamodb/types"
	awsv1 "github.com/aws/aws-sdk-go/aws"
	"github.com/aws/aws-sdk-go/aws/awserr"
	"github.com/aws/aws-sdk-go/aws/request"
	ddbv1 "github.com/aws/aws-sdk-go/service/dynamodb"
)

// ---- SDK v1 adapter

// V1 adapts the fake to the v1 plugin's DynamoDBClientAPI.
type V1 struct{ D *DDB }

func fromV1(a *ddbv1.AttributeValue) Val {
	switch {
	case a == nil:
		return Val{Kind: 'Z'}
	case a.S != nil:
		return Val{Kind: 'S', S: *a.S}
	case a.N != nil:
		return Val{Kind: 'N', S: *a.N}
	case a.BOOL != nil:
		return Val{Kind: 'B', B: *a.BOOL}
	case a.M != nil:
		m := map[string]Val{}
		for k, v := range a.M {
			m[k] = fromV1(v)
		}
		return Val{Kind: 'M', M: m}
	case a.NULL != nil:
		return Val{Kind: 'Z'}
	}
	panic(HarnessError{"attribute value kind not supported by the fake"})
}

func toV1(v Val) *ddbv1.AttributeValue {
	switch v.Kind {
	case 'S':
		return &ddbv1.AttributeValue{S: awsv1.String(v.S)}
	case 'N':
		return &ddbv1.AttributeValue{N: awsv1.String(v.S)}
	case 'B':
		return &ddbv1.AttributeValue{BOOL: awsv1.Bool(v.B)}
	case 'M':
		m := map[string]*ddbv1.AttributeValue{}
		for k, x := range v.M {
			m[k] = toV1(x)
		}
		return &ddbv1.AttributeValue{M: m}
	}
	return &ddbv1.AttributeValue{NULL: awsv1.Bool(true)}
}

func itemFromV1(m map[string]*ddbv1.AttributeValue) Item {
	it := Item{}
	for k, v := range m {
		it[k] = fromV1(v)
	}
	return it
}

func itemToV1(it Item) map[string]*ddbv1.AttributeValue {
	if it == nil {
		return nil
	}
	m := map[string]*ddbv1.AttributeValue{}
	for k, v := range it {
		m[k] = toV1(v)
	}
	return m
}

func namesV1(m map[string]*string) map[string]string {
	out := map[string]string{}
	for k, v := range m {
		out[k] = *v
	}
	return out
}

// PlainErrors makes injected failures surface as plain Go errors (a timeout or connection error from
// a custom or wrapping client) instead of typed service errors. Set per run by the engine.
var PlainErrors bool

var errPlain = errors.New("Post \"https://dynamodb.us-west-2.amazonaws.com/\": net/http: request canceled (Client.Timeout exceeded while awaiting headers)")

func v1err(err error) error {
	switch {
	case err == nil:
		return nil
	case errors.Is(err, ErrConditional):
		return awserr.New(ddbv1.ErrCodeConditionalCheckFailedException, "The conditional request failed", nil)
	case errors.Is(err, ErrInjected):
		if PlainErrors {
			return errPlain
		}
		return awserr.New(ddbv1.ErrCodeProvisionedThroughputExceededException, "injected", err)
	}
	var he HarnessError
	if errors.As(err, &he) {
		panic(he)
	}
	return awserr.New("ValidationException", err.Error(), nil)
}

func (c V1) GetItemWithContext(_ awsv1.Context, in *ddbv1.GetItemInput, _ ...request.Option) (*ddbv1.GetItemOutput, error) {
	// the SDK serialises the request some time after the caller built it: whatever another goroutine
	// does to shared request values until then goes on the wire
	c.D.S.Point(simrt.KSeam, "ddb.request.marshal")
	it, err := c.D.GetItem(awsv1.StringValue(in.TableName), itemFromV1(in.Key), awsv1.BoolValue(in.ConsistentRead), awsv1.StringValue(in.ProjectionExpression), namesV1(in.ExpressionAttributeNames))
	if err != nil {
		return nil, v1err(err)
	}
	return &ddbv1.GetItemOutput{Item: itemToV1(it)}, nil
}

func (c V1) PutItemWithContext(_ awsv1.Context, in *ddbv1.PutItemInput, _ ...request.Option) (*ddbv1.PutItemOutput, error) {
	// the SDK serialises the request some time after the caller built it: whatever another goroutine
	// does to shared request values until then goes on the wire
	c.D.S.Point(simrt.KSeam, "ddb.request.marshal")
	if err := c.D.PutItem(awsv1.StringValue(in.TableName), itemFromV1(in.Item), awsv1.StringValue(in.ConditionExpression), namesV1(in.ExpressionAttributeNames), map[string]Val(itemFromV1(in.ExpressionAttributeValues))); err != nil {
		return nil, v1err(err)
	}
	return &ddbv1.PutItemOutput{}, nil
}

func (c V1) QueryWithContext(_ awsv1.Context, in *ddbv1.QueryInput, _ ...request.Option) (*ddbv1.QueryOutput, error) {
	// the SDK serialises the request some time after the caller built it: whatever another goroutine
	// does to shared request values until then goes on the wire
	c.D.S.Point(simrt.KSeam, "ddb.request.marshal")
	vals := map[string]Val{}
	for k, v := range in.ExpressionAttributeValues {
		vals[k] = fromV1(v)
	}
	forward := true
	if in.ScanIndexForward != nil {
		forward = *in.ScanIndexForward
	}
	var start Item
	if len(in.ExclusiveStartKey) > 0 {
		start = itemFromV1(in.ExclusiveStartKey)
	}
	items, last, err := c.D.Query(awsv1.StringValue(in.TableName), awsv1.StringValue(in.KeyConditionExpression), namesV1(in.ExpressionAttributeNames), vals, awsv1.BoolValue(in.ConsistentRead), forward, int(awsv1.Int64Value(in.Limit)), awsv1.StringValue(in.ProjectionExpression), start)
	if err != nil {
		return nil, v1err(err)
	}
	out := &ddbv1.QueryOutput{}
	if last != nil {
		out.LastEvaluatedKey = itemToV1(last)
	}
	for _, it := range items {
		out.Items = append(out.Items, itemToV1(it))
	}
	return out, nil
}

// ---- SDK v2 adapter

// V2 adapts the fake to the v2 plugin's DynamoDBClient.
type V2 struct {
	D      *DDB
	Region string
}

func fromV2(a typesv2.AttributeValue) Val {
	switch x := a.(type) {
	case *typesv2.AttributeValueMemberS:
		return Val{Kind: 'S', S: x.Value}
	case *typesv2.AttributeValueMemberN:
		return Val{Kind: 'N', S: x.Value}
	case *typesv2.AttributeValueMemberBOOL:
		return Val{Kind: 'B', B: x.Value}
	case *typesv2.AttributeValueMemberNULL:
		return Val{Kind: 'Z'}
	case *typesv2.AttributeValueMemberM:
		m := map[string]Val{}
		for k, v := range x.Value {
			m[k] = fromV2(v)
		}
		return Val{Kind: 'M', M: m}
	case nil:
		return Val{Kind: 'Z'}
	}
	panic(HarnessError{"attribute value kind not supported by the fake"})
}

func toV2(v Val) typesv2.AttributeValue {
	switch v.Kind {
	case 'S':
		return &typesv2.AttributeValueMemberS{Value: v.S}
	case 'N':
		return &typesv2.AttributeValueMemberN{Value: v.S}
	case 'B':
		return &typesv2.AttributeValueMemberBOOL{Value: v.B}
	case 'M':
		m := map[string]typesv2.AttributeValue{}
		for k, x := range v.M {
			m[k] = toV2(x)
		}
		return &typesv2.AttributeValueMemberM{Value: m}
	}
	return &typesv2.AttributeValueMemberNULL{Value: true}
}

func itemFromV2(m map[string]typesv2.AttributeValue) Item {
	it := Item{}
	for k, v := range m {
		it[k] = fromV2(v)
	}
	return it
}

func itemToV2(it Item) map[string]typesv2.AttributeValue {
	if it == nil {
		return nil
	}
	m := map[string]typesv2.AttributeValue{}
	for k, v := range it {
		m[k] = toV2(v)
	}
	return m
}

func v2err(err error) error {
	switch {
	case err == nil:
		return nil
	case errors.Is(err, ErrConditional):
		return &typesv2.ConditionalCheckFailedException{Message: awsv2.String("The conditional request failed")}
	case errors.Is(err, ErrInjected):
		if PlainErrors {
			return errPlain
		}
		return &typesv2.ProvisionedThroughputExceededException{Message: awsv2.String("injected")}
	}
	var he HarnessError
	if errors.As(err, &he) {
		panic(he)
	}
	return err
}

func (c V2) Options() ddbv2.Options { return ddbv2.Options{Region: c.Region} }

func (c V2) GetItem(_ context.Context, in *ddbv2.GetItemInput, _ ...func(*ddbv2.Options)) (*ddbv2.GetItemOutput, error) {
	// the SDK serialises the request some time after the caller built it: whatever another goroutine
	// does to shared request values until then goes on the wire
	c.D.S.Point(simrt.KSeam, "ddb.request.marshal")
	it, err := c.D.GetItem(awsv2.ToString(in.TableName), itemFromV2(in.Key), awsv2.ToBool(in.ConsistentRead), awsv2.ToString(in.ProjectionExpression), in.ExpressionAttributeNames)
	if err != nil {
		return nil, v2err(err)
	}
	return &ddbv2.GetItemOutput{Item: itemToV2(it)}, nil
}

func (c V2) PutItem(_ context.Context, in *ddbv2.PutItemInput, _ ...func(*ddbv2.Options)) (*ddbv2.PutItemOutput, error) {
	// the SDK serialises the request some time after the caller built it: whatever another goroutine
	// does to shared request values until then goes on the wire
	c.D.S.Point(simrt.KSeam, "ddb.request.marshal")
	if err := c.D.PutItem(awsv2.ToString(in.TableName), itemFromV2(in.Item), awsv2.ToString(in.ConditionExpression), in.ExpressionAttributeNames, map[string]Val(itemFromV2(in.ExpressionAttributeValues))); err != nil {
		return nil, v2err(err)
	}
	return &ddbv2.PutItemOutput{}, nil
}

func (c V2) Query(_ context.Context, in *ddbv2.QueryInput, _ ...func(*ddbv2.Options)) (*ddbv2.QueryOutput, error) {
	// the SDK serialises the request some time after the caller built it: whatever another goroutine
	// does to shared request values until then goes on the wire
	c.D.S.Point(simrt.KSeam, "ddb.request.marshal")
	vals := map[string]Val{}
	for k, v := range in.ExpressionAttributeValues {
		vals[k] = fromV2(v)
	}
	forward := true
	if in.ScanIndexForward != nil {
		forward = *in.ScanIndexForward
	}
	var start Item
	if len(in.ExclusiveStartKey) > 0 {
		start = itemFromV2(in.ExclusiveStartKey)
	}
	items, last, err := c.D.Query(awsv2.ToString(in.TableName), awsv2.ToString(in.KeyConditionExpression), in.ExpressionAttributeNames, vals, awsv2.ToBool(in.ConsistentRead), forward, int(awsv2.ToInt32(in.Limit)), awsv2.ToString(in.ProjectionExpression), start)
	if err != nil {
		return nil, v2err(err)
	}
	out := &ddbv2.QueryOutput{}
	if last != nil {
		out.LastEvaluatedKey = itemToV2(last)
	}
	for _, it := range items {
		out.Items = append(out.Items, itemToV2(it))
	}
	return out, nil
}
