package fakes

import (
	"fmt"
	"strconv"
	"strings"
)

// A small evaluator for DynamoDB condition expressions, evaluated against the item currently stored
// under the primary key of the request (nil when there is none):
//
//	expr    := term { OR term }
//	term    := factor { AND factor }
//	factor  := NOT factor | '(' expr ')' | attribute_exists '(' path ')' | attribute_not_exists '(' path ')'
//	           | operand ( = | <> | < | <= | > | >= ) operand
//	operand := path | :value
//	path    := name { '.' name }      (name may be a #placeholder)
type condParser struct {
	toks   []string
	pos    int
	item   Item
	names  map[string]string
	values map[string]Val
	err    error
}

func condTokens(s string) []string {
	var out []string
	i := 0
	for i < len(s) {
		c := s[i]
		switch {
		case c == ' ' || c == '\t' || c == '\n':
			i++
		case c == '(' || c == ')' || c == '.' || c == ',' || c == '=':
			out = append(out, string(c))
			i++
		case c == '<' || c == '>':
			if i+1 < len(s) && (s[i+1] == '=' || (c == '<' && s[i+1] == '>')) {
				out = append(out, s[i:i+2])
				i += 2
			} else {
				out = append(out, string(c))
				i++
			}
		default:
			j := i
			for j < len(s) && (s[j] == '_' || s[j] == '#' || s[j] == ':' || s[j] >= '0' && s[j] <= '9' || s[j] >= 'a' && s[j] <= 'z' || s[j] >= 'A' && s[j] <= 'Z') {
				j++
			}
			if j == i {
				out = append(out, string(c))
				j = i + 1
			} else {
				out = append(out, s[i:j])
			}
			i = j
		}
	}
	return out
}

func (p *condParser) peek() string {
	if p.pos < len(p.toks) {
		return p.toks[p.pos]
	}
	return ""
}

func (p *condParser) next() string {
	t := p.peek()
	p.pos++
	return t
}

func (p *condParser) fail(format string, a ...any) {
	if p.err == nil {
		p.err = fmt.Errorf(format, a...)
	}
}

func (p *condParser) expr() bool {
	v := p.term()
	for strings.EqualFold(p.peek(), "OR") {
		p.next()
		r := p.term()
		v = v || r
	}
	return v
}

func (p *condParser) term() bool {
	v := p.factor()
	for strings.EqualFold(p.peek(), "AND") {
		p.next()
		r := p.factor()
		v = v && r
	}
	return v
}

func (p *condParser) path() (Val, bool) {
	name := p.next()
	resolve := func(n string) string {
		if strings.HasPrefix(n, "#") {
			if r, ok := p.names[n]; ok {
				return r
			}
			p.fail("unknown name placeholder %s", n)
		}
		return n
	}
	var cur Val
	var ok bool
	if p.item != nil {
		cur, ok = p.item[resolve(name)]
	} else {
		resolve(name)
	}
	for p.peek() == "." {
		p.next()
		n := resolve(p.next())
		if ok && cur.Kind == 'M' {
			cur, ok = cur.M[n]
		} else {
			ok = false
		}
	}
	return cur, ok
}

func (p *condParser) operand() (Val, bool) {
	if strings.HasPrefix(p.peek(), ":") {
		t := p.next()
		v, ok := p.values[t]
		if !ok {
			p.fail("unknown value placeholder %s", t)
		}
		return v, ok
	}
	return p.path()
}

func (p *condParser) factor() bool {
	t := p.peek()
	switch {
	case strings.EqualFold(t, "NOT"):
		p.next()
		return !p.factor()
	case t == "(":
		p.next()
		v := p.expr()
		if p.next() != ")" {
			p.fail("missing )")
		}
		return v
	case t == "attribute_exists" || t == "attribute_not_exists":
		p.next()
		if p.next() != "(" {
			p.fail("missing ( after %s", t)
		}
		_, ok := p.path()
		if p.next() != ")" {
			p.fail("missing ) after %s", t)
		}
		if t == "attribute_exists" {
			return ok
		}
		return !ok
	case t == "":
		p.fail("unexpected end of condition expression")
		return false
	}
	l, lok := p.operand()
	op := p.next()
	r, rok := p.operand()
	if !lok || !rok || l.Kind != r.Kind {
		switch op {
		case "=", "<", "<=", ">", ">=":
			return false
		case "<>":
			return true
		}
		p.fail("unsupported comparison operator %q", op)
		return false
	}
	cmp := 0
	switch l.Kind {
	case 'N':
		a, _ := strconv.ParseFloat(l.S, 64)
		b, _ := strconv.ParseFloat(r.S, 64)
		switch {
		case a < b:
			cmp = -1
		case a > b:
			cmp = 1
		}
	case 'S':
		cmp = strings.Compare(l.S, r.S)
	case 'B':
		if l.B != r.B {
			cmp = 1
		}
	default:
		p.fail("comparison of %c values is not supported", l.Kind)
	}
	switch op {
	case "=":
		return cmp == 0
	case "<>":
		return cmp != 0
	case "<":
		return cmp < 0
	case "<=":
		return cmp <= 0
	case ">":
		return cmp > 0
	case ">=":
		return cmp >= 0
	}
	p.fail("unsupported comparison operator %q", op)
	return false
}

// EvalCondition evaluates a condition expression against the stored item (nil: none).
func EvalCondition(cond string, stored Item, names map[string]string, values map[string]Val) (bool, error) {
	p := &condParser{toks: condTokens(cond), item: stored, names: names, values: values}
	v := p.expr()
	if p.err == nil && p.pos < len(p.toks) {
		p.fail("unexpected %q", p.peek())
	}
	return v, p.err
}
