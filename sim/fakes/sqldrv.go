package fakes

import (
	"context"
	"database/sql"
	"database/sql/driver"
	"fmt"
	"github.com/go-sql-driver/mysql"
	"io"
	"regexp"
	"sort"
	"strconv"
	"strings"
	"time"

	"verif/sim/simrt"
)

// SQLDB is a fake database holding the documented table
//
//	encryption_key(id VARCHAR(255) NOT NULL, created TIMESTAMP NOT NULL, key_record TEXT NOT NULL, PRIMARY KEY(id, created))
//
// behind a database/sql driver that understands exactly the three documented statements in one
// placeholder dialect (? | $n | :n).
type SQLDB struct {
	S       *simrt.Sim
	T       *simrt.Tape
	Dialect string // "mysql" (?), "postgres" ($n), "oracle" (:n)
	rows    map[string]map[int64]string
	Faults  bool
	Stats   map[string]int
	FaultOf map[int]string // task id -> fault injected into that task's current call
	// ErrKind: how an injected failure surfaces: 0 a server-side error, 1 a connection cut
	// (unexpected EOF), 2 a timeout on the wire (a net.Error)
	ErrKind int
}

// NewSQLDB creates the database.
func NewSQLDB(s *simrt.Sim, dialect string) *SQLDB {
	return &SQLDB{S: s, T: s.Tape, Dialect: dialect, rows: map[string]map[int64]string{}, Stats: map[string]int{}}
}

// Open returns a *sql.DB backed by the fake.
func (d *SQLDB) Open() *sql.DB {
	db := sql.OpenDB(sqlConnector{d})
	db.SetMaxIdleConns(8)
	return db
}

type sqlConnector struct{ d *SQLDB }

func (c sqlConnector) Connect(context.Context) (driver.Conn, error) { return &sqlConn{d: c.d}, nil }
func (c sqlConnector) Driver() driver.Driver                        { return sqlDriver{c.d} }

type sqlDriver struct{ d *SQLDB }

func (s sqlDriver) Open(string) (driver.Conn, error) { return &sqlConn{d: s.d}, nil }

type sqlConn struct {
	d *SQLDB
	// loc: the connection was opened from a go-sql-driver/mysql DSN; that driver renders every
	// time.Time argument as the wall clock of the DSN's loc (UTC by default) and the server reads the
	// literal in its own time zone (UTC here)
	loc *time.Location
}

// ts is the TIMESTAMP the server stores / compares for a time argument sent over this connection.
func (c *sqlConn) ts(v driver.Value) (int64, error) {
	if tv, ok := v.(time.Time); ok && c.loc != nil {
		w := tv.In(c.loc)
		v = time.Date(w.Year(), w.Month(), w.Day(), w.Hour(), w.Minute(), w.Second(), w.Nanosecond(), time.UTC)
	}
	return asTimestamp(v)
}

// MySQLDriverName is a registered database/sql driver name that stands for go-sql-driver/mysql in front
// of CurrentMySQL: it parses the DSN the way that driver does and honours its loc parameter.
const MySQLDriverName = "verif-mysql"

// CurrentMySQL is the database behind connections opened through MySQLDriverName.
var CurrentMySQL *SQLDB

type mysqlNamedDriver struct{}

func (mysqlNamedDriver) Open(dsn string) (driver.Conn, error) {
	cfg, err := mysql.ParseDSN(dsn)
	if err != nil {
		return nil, err
	}
	if CurrentMySQL == nil {
		return nil, fmt.Errorf("dial tcp %s: connection refused", cfg.Addr)
	}
	return &sqlConn{d: CurrentMySQL, loc: cfg.Loc}, nil
}

func init() { sql.Register(MySQLDriverName, mysqlNamedDriver{}) }

var reSetVar = regexp.MustCompile(`(?i)^\s*set\s+\w+\s*=\s*\?\s*$`)

func (c *sqlConn) Prepare(q string) (driver.Stmt, error) {
	return nil, fmt.Errorf("fake sql: Prepare not supported")
}
func (c *sqlConn) Close() error { return nil }
func (c *sqlConn) Begin() (driver.Tx, error) {
	return nil, fmt.Errorf("fake sql: transactions not supported")
}

// ConnErrors makes injected failures surface as connection-level errors (a reset connection, a
// timeout on the wire) instead of a server-side error. Set per run by the engine.
type timeoutErr struct{}

func (timeoutErr) Error() string   { return "read tcp 10.0.0.7:51234->10.0.0.9:3306: i/o timeout" }
func (timeoutErr) Timeout() bool   { return true }
func (timeoutErr) Temporary() bool { return true }

// injected is the error an injected failure surfaces as.
func (d *SQLDB) injected() error {
	switch d.ErrKind {
	case 1:
		return fmt.Errorf("%w: %w", ErrInjected, io.ErrUnexpectedEOF)
	case 2:
		return fmt.Errorf("%w: %w", ErrInjected, error(timeoutErr{}))
	}
	return ErrInjected
}

var (
	reSelectOne    = regexp.MustCompile(`(?i)^\s*select\s+key_record\s+from\s+encryption_key\s+where\s+id\s*=\s*(\S+)\s+and\s+created\s*=\s*(\S+)\s*$`)
	reSelectLatest = regexp.MustCompile(`(?i)^\s*select\s+key_record\s+from\s+encryption_key\s+where\s+id\s*=\s*(\S+)(\s+order\s+by\s+created(\s+(asc|desc))?)?(\s+limit\s+(\d+))?\s*$`)
	// INSERT, optionally with one of the "keep the existing row" forms: INSERT IGNORE / ON DUPLICATE KEY
	// UPDATE <no-op> (MySQL), ON CONFLICT [(id, created)] DO NOTHING (PostgreSQL)
	reInsert = regexp.MustCompile(`(?i)^\s*insert\s+(ignore\s+)?into\s+encryption_key\s*\(\s*id\s*,\s*created\s*,\s*key_record\s*\)\s*values\s*\(\s*(\S+?)\s*,\s*(\S+?)\s*,\s*(\S+?)\s*\)\s*(on\s+conflict(\s*\(\s*id\s*,\s*created\s*\))?\s+do\s+nothing|on\s+duplicate\s+key\s+update\s+(\w+)\s*=\s*(\w+))?\s*$`)
)

// arg resolves a placeholder to its argument.
func (d *SQLDB) arg(ph string, seq *int, args []driver.NamedValue) (driver.Value, error) {
	idx := -1
	switch d.Dialect {
	case "mysql":
		if ph != "?" {
			return nil, fmt.Errorf("Error 1064 (42000): You have an error in your SQL syntax near '%s'", ph)
		}
		idx = *seq
		*seq++
	case "postgres":
		if !strings.HasPrefix(ph, "$") {
			return nil, fmt.Errorf("pq: syntax error at or near \"%s\"", ph)
		}
		n, err := strconv.Atoi(ph[1:])
		if err != nil {
			return nil, fmt.Errorf("pq: syntax error at or near \"%s\"", ph)
		}
		idx = n - 1
	case "oracle":
		if !strings.HasPrefix(ph, ":") {
			return nil, fmt.Errorf("ORA-00911: invalid character near %s", ph)
		}
		n, err := strconv.Atoi(ph[1:])
		if err != nil {
			return nil, fmt.Errorf("ORA-01036: illegal variable name/number %s", ph)
		}
		idx = n - 1
	}
	if idx < 0 || idx >= len(args) {
		return nil, fmt.Errorf("sql: placeholder %s has no argument (%d given)", ph, len(args))
	}
	return args[idx].Value, nil
}

func asString(v driver.Value) (string, error) {
	switch x := v.(type) {
	case string:
		return x, nil
	case []byte:
		return string(x), nil
	}
	return "", fmt.Errorf("sql: expected a string argument, got %T", v)
}

func asTimestamp(v driver.Value) (int64, error) {
	switch x := v.(type) {
	case time.Time:
		return x.Unix(), nil // TIMESTAMP without fractional seconds
	case int64:
		return 0, fmt.Errorf("Error 1292 (22007): Incorrect datetime value: '%d' for column 'created'", x)
	}
	return 0, fmt.Errorf("sql: expected a timestamp argument, got %T", v)
}

func (d *SQLDB) fault(class string) string {
	if d.FaultOf == nil {
		d.FaultOf = map[int]string{}
	}
	if !d.Faults || !d.T.Chance(1, 8, "sql.fault?") {
		return ""
	}
	k := []string{"before", "after"}[d.T.Choose(2, "sql.fault.kind")]
	d.Stats["fault:"+class+":"+k]++
	d.FaultOf[d.S.Cur().ID] = k
	return k
}

func (c *sqlConn) QueryContext(_ context.Context, q string, args []driver.NamedValue) (driver.Rows, error) {
	d := c.d
	d.S.Point(simrt.KSeam, "sql.query")
	d.Stats["query"]++
	if f := d.fault("query"); f != "" {
		return nil, d.injected()
	}
	seq := 0
	if m := reSelectOne.FindStringSubmatch(q); m != nil {
		idv, err := d.arg(m[1], &seq, args)
		if err != nil {
			return nil, err
		}
		cv, err := d.arg(m[2], &seq, args)
		if err != nil {
			return nil, err
		}
		id, err := asString(idv)
		if err != nil {
			return nil, err
		}
		created, err := c.ts(cv)
		if err != nil {
			return nil, err
		}
		d.S.Point(simrt.KSeam, "sql.query.ret")
		if rec, ok := d.rows[id][created]; ok {
			return d.rowsWithFault(&sqlRows{d: d, vals: []string{rec}, failAt: -1}), nil
		}
		return d.rowsWithFault(&sqlRows{d: d, failAt: -1}), nil
	}
	if m := reSelectLatest.FindStringSubmatch(q); m != nil {
		idv, err := d.arg(m[1], &seq, args)
		if err != nil {
			return nil, err
		}
		id, err := asString(idv)
		if err != nil {
			return nil, err
		}
		var cs []int64
		for cr := range d.rows[id] {
			cs = append(cs, cr)
		}
		// without ORDER BY the order is unspecified: serve the oldest first (the adversarial choice)
		desc := strings.EqualFold(m[4], "desc")
		sort.Slice(cs, func(i, j int) bool {
			if desc {
				return cs[i] > cs[j]
			}
			return cs[i] < cs[j]
		})
		limit := len(cs)
		if m[6] != "" {
			limit, _ = strconv.Atoi(m[6])
		}
		rows := &sqlRows{d: d, failAt: -1}
		for i, cr := range cs {
			if i >= limit {
				break
			}
			rows.vals = append(rows.vals, d.rows[id][cr])
		}
		d.S.Point(simrt.KSeam, "sql.query.ret")
		return d.rowsWithFault(rows), nil
	}
	panic(HarnessError{"sql statement not understood by the fake: " + q})
}

func (c *sqlConn) ExecContext(_ context.Context, q string, args []driver.NamedValue) (driver.Result, error) {
	d := c.d
	d.S.Point(simrt.KSeam, "sql.exec")
	d.Stats["exec"]++
	f := d.fault("exec")
	if f == "before" {
		return nil, d.injected()
	}
	if reSetVar.MatchString(q) && d.Dialect == "mysql" && len(args) == 1 {
		return driver.RowsAffected(0), nil // a session variable
	}
	m := reInsert.FindStringSubmatch(q)
	if m == nil {
		panic(HarnessError{"sql statement not understood by the fake: " + q})
	}
	keepExisting := false
	switch {
	case m[1] != "":
		if d.Dialect != "mysql" {
			return nil, fmt.Errorf("syntax error at or near \"IGNORE\"")
		}
		keepExisting = true
	case strings.HasPrefix(strings.ToLower(m[5]), "on conflict"):
		if d.Dialect != "postgres" {
			return nil, fmt.Errorf("syntax error near 'ON CONFLICT'")
		}
		keepExisting = true
	case m[5] != "":
		if d.Dialect != "mysql" {
			return nil, fmt.Errorf("syntax error at or near \"DUPLICATE\"")
		}
		if !strings.EqualFold(m[7], m[8]) {
			panic(HarnessError{"sql statement not understood by the fake: " + q})
		}
		keepExisting = true
	}
	seq := 0
	var vals [3]driver.Value
	for i := 0; i < 3; i++ {
		v, err := d.arg(m[2+i], &seq, args)
		if err != nil {
			return nil, err
		}
		vals[i] = v
	}
	id, err := asString(vals[0])
	if err != nil {
		return nil, err
	}
	if len(id) > 255 {
		return nil, fmt.Errorf("Error 1406 (22001): Data too long for column 'id'")
	}
	created, err := c.ts(vals[1])
	if err != nil {
		return nil, err
	}
	rec, err := asString(vals[2])
	if err != nil {
		return nil, err
	}
	if _, dup := d.rows[id][created]; dup && keepExisting {
		// the statement succeeds and changes nothing: zero rows affected
		d.S.Point(simrt.KSeam, "sql.exec.ret")
		if f == "after" {
			return nil, d.injected()
		}
		return driver.RowsAffected(0), nil
	}
	if _, dup := d.rows[id][created]; dup {
		d.S.Point(simrt.KSeam, "sql.exec.ret")
		return nil, fmt.Errorf("Error 1062 (23000): Duplicate entry '%s-%d' for key 'PRIMARY'", id, created)
	}
	if d.rows[id] == nil {
		d.rows[id] = map[int64]string{}
	}
	d.rows[id][created] = rec
	d.S.Point(simrt.KSeam, "sql.exec.ret")
	if f == "after" {
		return nil, d.injected()
	}
	return driver.RowsAffected(1), nil
}

type sqlRows struct {
	d      *SQLDB
	vals   []string
	i      int
	failAt int // index of the row whose fetch fails (-1 never)
}

func (r *sqlRows) Columns() []string { return []string{"key_record"} }
func (r *sqlRows) Close() error      { return nil }
func (r *sqlRows) Next(dest []driver.Value) error {
	if r.failAt >= 0 && r.i == r.failAt {
		r.failAt = -1
		return r.d.injected() // the connection dropped while the result set was being read
	}
	if r.i >= len(r.vals) {
		return io.EOF
	}
	dest[0] = r.vals[r.i]
	r.i++
	return nil
}

// Raw returns the stored key_record text (second-resolution timestamp key).
func (d *SQLDB) Raw(id string, created int64) (string, bool) {
	r, ok := d.rows[id][created]
	return r, ok
}

// PutRaw inserts a row directly (an independent writer).
func (d *SQLDB) PutRaw(id string, created int64, rec string) {
	if d.rows[id] == nil {
		d.rows[id] = map[int64]string{}
	}
	d.rows[id][created] = rec
}

// rowsWithFault optionally makes the fetch of the first row fail (the query itself succeeded).
func (d *SQLDB) rowsWithFault(r *sqlRows) *sqlRows {
	if d.Faults && d.T.Chance(1, 10, "sql.rowfault?") {
		r.failAt = 0
		d.Stats["fault:rows.next"]++
		if d.FaultOf == nil {
			d.FaultOf = map[int]string{}
		}
		d.FaultOf[d.S.Cur().ID] = "rows.next"
	}
	return r
}
