package fakes

import (
	"bufio"
	"errors"
	"fmt"
	"os"
	"strconv"
	"strings"
	"unsafe"

	"github.com/awnumar/memcall"

	"verif/sim/simrt"
)

// Region is the shadow page-table entry of one allocation seen at the memcall seam.
type Region struct {
	N                        int
	Addr                     uintptr
	Len                      int
	Mapped                   bool
	Locked                   bool
	Prot                     string // "rw" "r" "none"
	Secret                   bool   // held caller-supplied or handed-out secret bytes at some point
	NonZeroAtUnlock          bool
	NonZeroAtFree            bool
	UnlockFailed, FreeFailed bool   // the injected failure hit this region's own unlock/free
	RealFreeErr              string // the real free of this region failed (not injected)
	ProtectNoneFailed        bool   // an injected failure hit a request to make this region inaccessible
}

// MemSpy is the interposed memcall implementation: real system calls + shadow table + fault injector.
type MemSpy struct {
	S       *simrt.Sim
	Regions []*Region
	byAddr  map[uintptr]*Region
	Calls   []string
	// fault plan: FailAt == index of the call to fail (-1 never); After: perform the call, then report failure
	FailAt  int
	After   bool
	FailAt2 int
	Fired   []string
	Off     bool
}

var errMem = errors.New("verif: injected memory-management failure")

// NewMemSpy creates the interposer.
func NewMemSpy(s *simrt.Sim) *MemSpy {
	return &MemSpy{S: s, byAddr: map[uintptr]*Region{}, FailAt: -1, FailAt2: -1}
}

func addrOf(b []byte) uintptr {
	if len(b) == 0 {
		return 0
	}
	return uintptr(unsafe.Pointer(&b[0]))
}

func (m *MemSpy) enter(name string) (fail bool) {
	if m.S != nil {
		m.S.Point(simrt.KSeam, "memcall."+name)
	}
	idx := len(m.Calls)
	m.Calls = append(m.Calls, name)
	if !m.Off && (idx == m.FailAt || idx == m.FailAt2) {
		m.Fired = append(m.Fired, fmt.Sprintf("%s#%d:after=%v", name, idx, m.After))
		return true
	}
	return false
}

func (m *MemSpy) region(b []byte) *Region {
	a := addrOf(b)
	r := m.byAddr[a]
	if r == nil {
		// first sight of a region allocated elsewhere (memguard allocates inside its library)
		r = &Region{N: len(m.Regions), Addr: a, Len: len(b), Mapped: true, Locked: true, Prot: "?", Secret: true}
		m.Regions = append(m.Regions, r)
		m.byAddr[a] = r
	}
	return r
}

func (m *MemSpy) Alloc(size int) ([]byte, error) {
	fail := m.enter("alloc")
	if fail {
		return nil, errMem
	}
	b, err := memcall.Alloc(size)
	if err != nil {
		return nil, err
	}
	r := &Region{N: len(m.Regions), Addr: addrOf(b), Len: len(b), Mapped: true, Prot: "rw"}
	m.Regions = append(m.Regions, r)
	m.byAddr[r.Addr] = r
	if fail {
		// "after": the mapping exists but the caller is told it failed; it cannot release what it never got
		memcall.Free(b)
		r.Mapped = false
		delete(m.byAddr, r.Addr)
		return nil, errMem
	}
	return b, nil
}

func (m *MemSpy) Lock(b []byte) error {
	fail := m.enter("lock")
	if fail && !m.After {
		return errMem
	}
	if err := memcall.Lock(b); err != nil {
		return err
	}
	m.region(b).Locked = true
	if fail {
		return errMem
	}
	return nil
}

func nonZero(b []byte) bool {
	for _, x := range b {
		if x != 0 {
			return true
		}
	}
	return false
}

// peek reads a region's content whatever its protection (temporarily made readable).
func (m *MemSpy) peek(b []byte, r *Region) bool {
	if r.Prot == "none" || r.Prot == "?" {
		if err := memcall.Protect(b, memcall.ReadOnly()); err != nil {
			return false
		}
		nz := nonZero(b)
		memcall.Protect(b, memcall.NoAccess())
		return nz
	}
	return nonZero(b)
}

// ReadableSecret reports whether the region is mapped, readable by the process as it stands
// (protection r or rw) and holds something other than zeroes. Regions for which the injected failure
// was the very request to make them inaccessible are exempt: nothing the caller does can help there.
func (m *MemSpy) ReadableSecret(r *Region) bool {
	if !r.Mapped || (r.Prot != "r" && r.Prot != "rw") || r.Len == 0 || r.ProtectNoneFailed {
		return false
	}
	return nonZero(unsafe.Slice((*byte)(unsafe.Pointer(r.Addr)), r.Len))
}

func (m *MemSpy) Unlock(b []byte) error {
	fail := m.enter("unlock")
	r := m.region(b)
	if r.Mapped && m.peek(b, r) {
		r.NonZeroAtUnlock = true
	}
	if fail && !m.After {
		r.UnlockFailed = true
		return errMem
	}
	if err := memcall.Unlock(b); err != nil {
		return err
	}
	r.Locked = false
	if fail {
		r.UnlockFailed = true
		return errMem
	}
	return nil
}

func (m *MemSpy) Free(b []byte) error {
	fail := m.enter("free")
	r := m.region(b)
	if r.Mapped && m.peek(b, r) {
		r.NonZeroAtFree = true
	}
	if fail {
		r.FreeFailed = true
		return errMem
	}
	if err := memcall.Free(b); err != nil {
		r.RealFreeErr = err.Error()
		return err
	}
	r.Mapped, r.Locked = false, false
	delete(m.byAddr, r.Addr)
	if fail {
		r.FreeFailed = true
		return errMem
	}
	return nil
}

func (m *MemSpy) Protect(b []byte, f memcall.MemoryProtectionFlag) error {
	fail := m.enter("protect")
	if fail {
		if f == memcall.NoAccess() {
			m.region(b).ProtectNoneFailed = true
		}
		return errMem
	}
	if err := memcall.Protect(b, f); err != nil {
		return err
	}
	r := m.region(b)
	switch f {
	case memcall.NoAccess():
		r.Prot = "none"
	case memcall.ReadOnly():
		r.Prot = "r"
	case memcall.ReadWrite():
		r.Prot = "rw"
	}
	if fail {
		return errMem
	}
	return nil
}

// MarkSecret notes that the region containing b now holds secret bytes.
func (m *MemSpy) MarkSecret(b []byte) {
	if r := m.byAddr[addrOf(b)]; r != nil {
		r.Secret = true
	}
}

// ProcMapping is what the kernel says about the mapping containing an address.
type ProcMapping struct {
	Found  bool
	Perms  string
	Flags  string
	Lo, Hi uint64 // extent of the mapping that contains the address
}

// ProcPerms looks the address up in /proc/self/maps.
func ProcPerms(addr uintptr) ProcMapping {
	f, err := os.Open("/proc/self/maps")
	if err != nil {
		return ProcMapping{}
	}
	defer f.Close()
	sc := bufio.NewScanner(f)
	for sc.Scan() {
		line := sc.Text()
		sp := strings.IndexByte(line, ' ')
		dash := strings.IndexByte(line, '-')
		if sp < 0 || dash < 0 || dash > sp {
			continue
		}
		lo, _ := strconv.ParseUint(line[:dash], 16, 64)
		hi, _ := strconv.ParseUint(line[dash+1:sp], 16, 64)
		if uint64(addr) >= lo && uint64(addr) < hi {
			return ProcMapping{Found: true, Perms: line[sp+1 : sp+5], Lo: lo, Hi: hi}
		}
	}
	return ProcMapping{}
}

// ProcFlags looks the address up in /proc/self/smaps and returns permissions and VmFlags.
func ProcFlags(addr uintptr) ProcMapping {
	f, err := os.Open("/proc/self/smaps")
	if err != nil {
		return ProcMapping{}
	}
	defer f.Close()
	sc := bufio.NewScanner(f)
	sc.Buffer(make([]byte, 1<<16), 1<<20)
	in := false
	var pm ProcMapping
	for sc.Scan() {
		line := sc.Text()
		if len(line) > 0 && (line[0] >= '0' && line[0] <= '9' || line[0] >= 'a' && line[0] <= 'f') && strings.Contains(line, "-") && !strings.Contains(line[:strings.IndexByte(line+" ", ' ')], ":") {
			sp := strings.IndexByte(line, ' ')
			dash := strings.IndexByte(line, '-')
			if sp > 0 && dash > 0 && dash < sp {
				lo, e1 := strconv.ParseUint(line[:dash], 16, 64)
				hi, e2 := strconv.ParseUint(line[dash+1:sp], 16, 64)
				if e1 == nil && e2 == nil {
					if in {
						return pm
					}
					if uint64(addr) >= lo && uint64(addr) < hi {
						in = true
						pm = ProcMapping{Found: true, Perms: line[sp+1 : sp+5], Lo: lo, Hi: hi}
					}
					continue
				}
			}
		}
		if in && strings.HasPrefix(line, "VmFlags:") {
			pm.Flags = " " + strings.TrimSpace(strings.TrimPrefix(line, "VmFlags:")) + " "
			return pm
		}
	}
	return pm
}

// SizedLike reports whether the mapping can be what is left of a secret of n bytes whose pages start
// at addr: it begins at most one (guard) page below addr and is no larger than the secret's pages plus
// two guard pages. Address-space reservations of the Go runtime that happen to cover a released
// address are far larger.
func (pm ProcMapping) SizedLike(addr uintptr, n int) bool {
	const page = 4096
	if !pm.Found {
		return false
	}
	pages := uint64((n + page - 1) / page * page)
	return pm.Lo+page >= uint64(addr)&^(page-1) && pm.Hi-pm.Lo <= pages+2*page
}
