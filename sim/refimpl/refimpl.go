// Package refimpl is an independent implementation of asherah's documented formats and
// envelope algorithm, written from docs/DesignAndArchitecture.md, docs/Metastore.md and
// tests/cross-language. It never imports the code under test.
package refimpl

import (
	"bytes"
	"crypto/aes"
	"crypto/cipher"
	"crypto/sha256"
	"encoding/base64"
	"encoding/hex"
	"encoding/json"
	"errors"
	"fmt"
	"sort"
)

// KeyMeta as documented: {"KeyId":..., "Created":...}.
type KeyMeta struct {
	KeyID   string `json:"KeyId"`
	Created int64  `json:"Created"`
}

// KeyRecord is the documented key record document (Id lives in the table key, not the document).
type KeyRecord struct {
	Revoked       bool     `json:"Revoked,omitempty"`
	Created       int64    `json:"Created"`
	Key           string   `json:"Key"` // base64
	ParentKeyMeta *KeyMeta `json:"ParentKeyMeta,omitempty"`
}

// DataRowRecord is the documented DRR document.
type DataRowRecord struct {
	Key  *KeyRecord `json:"Key"`
	Data string     `json:"Data"` // base64
}

// SystemKeyID / IntermediateKeyID follow the documented naming.
func SystemKeyID(service, product, region string) string {
	id := "_SK_" + service + "_" + product
	if region != "" {
		id += "_" + region
	}
	return id
}

func IntermediateKeyID(partition, service, product, region string) string {
	id := "_IK_" + partition + "_" + service + "_" + product
	if region != "" {
		id += "_" + region
	}
	return id
}

const (
	tagSize   = 16
	nonceSize = 12
)

// Seal produces ciphertext || tag || nonce under AES-256-GCM with empty AAD.
func Seal(key, nonce, plaintext []byte) ([]byte, error) {
	if len(nonce) != nonceSize {
		return nil, errors.New("refimpl: nonce size")
	}
	blk, err := aes.NewCipher(key)
	if err != nil {
		return nil, err
	}
	g, err := cipher.NewGCM(blk)
	if err != nil {
		return nil, err
	}
	out := g.Seal(nil, nonce, plaintext, nil)
	return append(out, nonce...), nil
}

// Open reverses Seal.
func Open(key, blob []byte) ([]byte, error) {
	if len(blob) < nonceSize+tagSize {
		return nil, errors.New("refimpl: blob too short")
	}
	blk, err := aes.NewCipher(key)
	if err != nil {
		return nil, err
	}
	g, err := cipher.NewGCM(blk)
	if err != nil {
		return nil, err
	}
	n := len(blob) - nonceSize
	return g.Open(nil, blob[n:], blob[:n], nil)
}

// Nonce returns the trailing nonce of a blob in the documented layout.
func Nonce(blob []byte) []byte {
	if len(blob) < nonceSize {
		return nil
	}
	return blob[len(blob)-nonceSize:]
}

// KMS is what a reference process needs from the key management service.
type KMS interface {
	Unwrap(blob []byte) ([]byte, error)
}

// Store is a snapshot of the metastore: id -> created -> JSON document bytes.
type Store map[string]map[int64][]byte

// Clone deep-copies a store snapshot.
func (s Store) Clone() Store {
	out := Store{}
	for id, m := range s {
		mm := map[int64][]byte{}
		for c, b := range m {
			mm[c] = append([]byte(nil), b...)
		}
		out[id] = mm
	}
	return out
}

// Get returns the parsed row or nil.
func (s Store) Get(id string, created int64) (*KeyRecord, error) {
	m := s[id]
	if m == nil {
		return nil, nil
	}
	b, ok := m[created]
	if !ok {
		return nil, nil
	}
	return ParseKeyRecord(b)
}

// Latest returns the created stamp of the newest row for id.
func (s Store) Latest(id string) (int64, bool) {
	m := s[id]
	if len(m) == 0 {
		return 0, false
	}
	var cs []int64
	for c := range m {
		cs = append(cs, c)
	}
	sort.Slice(cs, func(i, j int) bool { return cs[i] < cs[j] })
	return cs[len(cs)-1], true
}

// ParseKeyRecord strictly parses a key record document: only documented fields, correct types.
func ParseKeyRecord(b []byte) (*KeyRecord, error) {
	dec := json.NewDecoder(bytes.NewReader(b))
	dec.DisallowUnknownFields()
	var kr KeyRecord
	if err := dec.Decode(&kr); err != nil {
		return nil, fmt.Errorf("refimpl: key record: %w", err)
	}
	var raw map[string]json.RawMessage
	if err := json.Unmarshal(b, &raw); err != nil {
		return nil, err
	}
	if _, ok := raw["Created"]; !ok {
		return nil, errors.New("refimpl: key record without Created")
	}
	if _, ok := raw["Key"]; !ok {
		return nil, errors.New("refimpl: key record without Key")
	}
	if r, ok := raw["Revoked"]; ok && string(r) != "true" {
		return nil, errors.New("refimpl: Revoked present but not true")
	}
	if _, err := base64.StdEncoding.DecodeString(kr.Key); err != nil {
		return nil, fmt.Errorf("refimpl: Key is not standard base64: %w", err)
	}
	return &kr, nil
}

// ParseDRR strictly parses a data row record document.
func ParseDRR(b []byte) (*DataRowRecord, error) {
	dec := json.NewDecoder(bytes.NewReader(b))
	dec.DisallowUnknownFields()
	var d DataRowRecord
	if err := dec.Decode(&d); err != nil {
		return nil, fmt.Errorf("refimpl: drr: %w", err)
	}
	if d.Key == nil || d.Key.ParentKeyMeta == nil {
		return nil, errors.New("refimpl: drr without Key/ParentKeyMeta")
	}
	if _, err := base64.StdEncoding.DecodeString(d.Data); err != nil {
		return nil, fmt.Errorf("refimpl: Data is not base64: %w", err)
	}
	return &d, nil
}

// KeyBytes decodes the base64 key field.
func (k *KeyRecord) KeyBytes() []byte {
	b, _ := base64.StdEncoding.DecodeString(k.Key)
	return b
}

// UnwrapSK returns the plaintext of a system key row.
func UnwrapSK(store Store, kms KMS, id string, created int64) ([]byte, error) {
	row, err := store.Get(id, created)
	if err != nil {
		return nil, err
	}
	if row == nil {
		return nil, fmt.Errorf("refimpl: system key %s@%d not in store", id, created)
	}
	return kms.Unwrap(row.KeyBytes())
}

// UnwrapIK returns the plaintext of an intermediate key row (walking to its system key).
func UnwrapIK(store Store, kms KMS, id string, created int64) ([]byte, error) {
	row, err := store.Get(id, created)
	if err != nil {
		return nil, err
	}
	if row == nil {
		return nil, fmt.Errorf("refimpl: intermediate key %s@%d not in store", id, created)
	}
	if row.ParentKeyMeta == nil {
		return nil, fmt.Errorf("refimpl: intermediate key %s@%d has no ParentKeyMeta", id, created)
	}
	sk, err := UnwrapSK(store, kms, row.ParentKeyMeta.KeyID, row.ParentKeyMeta.Created)
	if err != nil {
		return nil, err
	}
	return Open(sk, row.KeyBytes())
}

// Decrypt decrypts a DRR document given only a store snapshot and the KMS: "a fresh process".
func Decrypt(store Store, kms KMS, drrJSON []byte) ([]byte, error) {
	d, err := ParseDRR(drrJSON)
	if err != nil {
		return nil, err
	}
	ik, err := UnwrapIK(store, kms, d.Key.ParentKeyMeta.KeyID, d.Key.ParentKeyMeta.Created)
	if err != nil {
		return nil, err
	}
	drk, err := Open(ik, d.Key.KeyBytes())
	if err != nil {
		return nil, fmt.Errorf("refimpl: data key: %w", err)
	}
	data, _ := base64.StdEncoding.DecodeString(d.Data)
	return Open(drk, data)
}

// MakeKeyRecord builds the JSON document for a key wrapped under parent.
func MakeKeyRecord(created int64, wrapped []byte, parent *KeyMeta, revoked bool) []byte {
	kr := KeyRecord{Created: created, Key: base64.StdEncoding.EncodeToString(wrapped), ParentKeyMeta: parent, Revoked: revoked}
	b, _ := json.Marshal(kr)
	return b
}

// MakeDRR builds a DRR document the way an independent writer would.
func MakeDRR(ikID string, ikCreated int64, ik []byte, drk []byte, drkCreated int64, nonce1, nonce2 []byte, payload []byte) ([]byte, error) {
	data, err := Seal(drk, nonce1, payload)
	if err != nil {
		return nil, err
	}
	wk, err := Seal(ik, nonce2, drk)
	if err != nil {
		return nil, err
	}
	d := DataRowRecord{
		Key:  &KeyRecord{Created: drkCreated, Key: base64.StdEncoding.EncodeToString(wk), ParentKeyMeta: &KeyMeta{KeyID: ikID, Created: ikCreated}},
		Data: base64.StdEncoding.EncodeToString(data),
	}
	return json.Marshal(d)
}

// FP is a short fingerprint of secret bytes (never the bytes themselves).
func FP(b []byte) string {
	h := sha256.Sum256(b)
	return hex.EncodeToString(h[:8])
}
