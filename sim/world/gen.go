package world

import (
	"encoding/json"
	"time"

	"verif/sim/refimpl"
	"verif/sim/simrt"
)

// GenOpts biases the swarm configuration.
type GenOpts struct {
	ForceCache     bool // key caching on
	NoSessionCache bool
	SmallCaps      bool // bounded caches with tiny capacities (miss / evict / reload paths run)
	AllowTinyLFU   bool
	ShortExpiry    bool
	ZeroExpiry     bool // ExpireKeyAfter = 0 in one run of six (every key counts as expired at once)
	NoSimple       bool // only bounded (evicting) key caches
}

var (
	keyPolicies  = []string{"", "simple", "lru", "lfu", "slru", "tinylfu"}
	sessPolicies = []string{"", "lru", "lfu", "slru", "tinylfu"}
	capsAll      = []int{1000, 1, 2, 3, 5, 99, 100, 101, 150}
	capsSmall    = []int{1, 2, 3, 5}
	expires      = []time.Duration{90 * 24 * time.Hour, 10 * time.Minute, 24 * time.Hour}
	revokes      = []time.Duration{60 * time.Minute, 30 * time.Second, 10 * time.Minute, 0}
	precisions   = []time.Duration{time.Minute, time.Second, time.Hour, 24 * time.Hour, 0}
	sessDurs     = []time.Duration{2 * time.Hour, 5 * time.Second, 0}
	sessSizes    = []int{1000, 1, 2, 3, 10}
)

// GenPolicy draws a policy from the tape. Value 0 of every choice is the SDK default.
func GenPolicy(t *simrt.Tape, o GenOpts) PolicyCfg {
	c := PolicyCfg{CacheSK: true, CacheIK: true}
	if !o.ForceCache {
		switch t.Choose(4, "cfg.cachemode") {
		case 1:
			c.CacheSK, c.CacheIK = false, false
		case 2:
			c.CacheIK = false
		case 3:
			c.CacheSK = false
		}
	}
	pols := keyPolicies
	if o.NoSimple {
		pols = keyPolicies[2:]
	}
	if !o.AllowTinyLFU {
		pols = pols[:len(pols)-1]
	}
	c.SKPolicy = pols[t.Choose(len(pols), "cfg.skpolicy")]
	c.IKPolicy = pols[t.Choose(len(pols), "cfg.ikpolicy")]
	caps := capsAll
	if o.SmallCaps {
		caps = capsSmall
	}
	c.SKCap = caps[t.Choose(len(caps), "cfg.skcap")]
	c.IKCap = caps[t.Choose(len(caps), "cfg.ikcap")]
	c.SharedIK = t.Choose(3, "cfg.sharedik") == 1
	if !o.NoSessionCache && t.Choose(3, "cfg.sesscache") == 1 {
		c.SessionCache = true
		c.SessSize = sessSizes[t.Choose(len(sessSizes), "cfg.sesssize")]
		c.SessDur = sessDurs[t.Choose(len(sessDurs), "cfg.sessdur")]
		sp := sessPolicies
		if !o.AllowTinyLFU {
			sp = sp[:len(sp)-1]
		}
		c.SessPolicy = sp[t.Choose(len(sp), "cfg.sesspolicy")]
	}
	if o.ShortExpiry {
		c.Expire = expires[1+t.Choose(2, "cfg.expire")]
	} else {
		c.Expire = expires[t.Choose(len(expires), "cfg.expire")]
	}
	if o.ZeroExpiry && t.Choose(6, "cfg.zero-expiry") == 1 {
		c.Expire = 0
	}
	c.Revoke = revokes[t.Choose(len(revokes), "cfg.revoke")]
	c.Precision = precisions[t.Choose(len(precisions), "cfg.precision")]
	return c
}

// AdvanceMenu is the boundary-biased set of clock steps for a policy.
func AdvanceMenu(c PolicyCfg) []time.Duration {
	prec := c.Precision
	if prec == 0 {
		prec = time.Second
	}
	return []time.Duration{
		time.Second, prec, prec - time.Second, prec + time.Second,
		c.Revoke, c.Revoke - time.Second, c.Revoke + time.Second, 2*c.Revoke + time.Second,
		c.Expire, c.Expire - time.Second, c.Expire + time.Second, c.Expire / 2, 2 * c.Expire,
	}
}

// Partitions is the default small partition universe.
var Partitions = []string{"a", "b", "c", "d", "e", "f", "g", "h"}

// ForeignNode is the independent implementation acting as a peer: it creates keys and records
// without the SDK, straight from the documented formats.
type ForeignNode struct {
	w *World
	r *simrt.Rand
}

// Foreign returns the foreign-implementation node of this world.
func (w *World) Foreign() *ForeignNode {
	if w.foreign == nil {
		w.foreign = &ForeignNode{w: w, r: simrt.NewRand(uint64(w.T.Choose(1<<20, "foreign.seed")) + 77)}
	}
	return w.foreign
}

func (f *ForeignNode) bytes(n int) []byte {
	b := make([]byte, n)
	f.r.Fill(b)
	return b
}

func (f *ForeignNode) stamp(prec time.Duration) int64 {
	t := f.w.Now()
	if prec > 0 {
		t = t.Truncate(prec)
	}
	return t.Unix()
}

// EnsureSK returns (created, plaintext) of a usable latest system key (not revoked, not older
// than expire), inserting a new one if there is none or forceNew is set and the stamp is free.
func (f *ForeignNode) EnsureSK(prec, expire time.Duration, forceNew bool) (int64, []byte, bool) {
	id := f.w.SKID()
	if c, ok := f.w.Store.Rows.Latest(id); ok && !forceNew {
		row, _ := f.w.Store.Rows.Get(id, c)
		usable := row != nil && !row.Revoked && (expire == 0 || !f.w.Now().After(time.Unix(c, 0).Add(expire)))
		if usable {
			b, err := refimpl.UnwrapSK(f.w.Store.Rows, f.w.KMS, id, c)
			if err == nil {
				return c, b, false
			}
		}
	}
	created := f.stamp(prec)
	if _, exists := f.w.Store.Rows[id][created]; exists {
		return 0, nil, false
	}
	if c, ok := f.w.Store.Rows.Latest(id); ok && c > created {
		return 0, nil, false
	}
	sk := f.bytes(32)
	doc := refimpl.MakeKeyRecord(created, f.w.KMS.Wrap(sk, f.bytes(12)), nil, false)
	f.w.Store.put("foreign", id, created, doc, -1)
	f.w.S.Logf("foreign insert %s@%d", id, created)
	return created, sk, true
}

// RotateIK inserts a new intermediate key for part under a usable system key (external rotation).
func (f *ForeignNode) RotateIK(part string, prec, expire time.Duration) (int64, []byte, bool) {
	f.w.Faults.Fired["peer.rotates-key"]++
	skc, sk, _ := f.EnsureSK(prec, expire, false)
	if sk == nil {
		return 0, nil, false
	}
	id := f.w.IKID(part)
	created := f.stamp(prec)
	if _, exists := f.w.Store.Rows[id][created]; exists {
		return 0, nil, false
	}
	if c, ok := f.w.Store.Rows.Latest(id); ok && c > created {
		return 0, nil, false
	}
	ik := f.bytes(32)
	wrapped, _ := refimpl.Seal(sk, f.bytes(12), ik)
	doc := refimpl.MakeKeyRecord(created, wrapped, &refimpl.KeyMeta{KeyID: f.w.SKID(), Created: skc}, false)
	f.w.Store.put("foreign", id, created, doc, -1)
	f.w.S.Logf("foreign insert %s@%d", id, created)
	return created, ik, true
}

// Write produces a record for part the way an independent implementation would.
func (f *ForeignNode) Write(part string, payload []byte) *Rec {
	id := f.w.IKID(part)
	c, ok := f.w.Store.Rows.Latest(id)
	var ik []byte
	if ok {
		ik, _ = refimpl.UnwrapIK(f.w.Store.Rows, f.w.KMS, id, c)
	}
	if ik == nil {
		var made bool
		c, ik, made = f.RotateIK(part, time.Second, 0)
		if !made {
			return nil
		}
	}
	doc, err := refimpl.MakeDRR(id, c, ik, f.bytes(32), f.w.Now().Unix(), f.bytes(12), f.bytes(12), payload)
	if err != nil {
		return nil
	}
	r := &Rec{N: len(f.w.Recs), Part: part, Payload: append([]byte(nil), payload...), JSON: doc, IKID: id, IKCreated: c, Proc: -1, Foreign: true}
	_ = json.Unmarshal(doc, &r.DRR)
	f.w.Recs = append(f.w.Recs, r)
	return r
}

// InsertSame makes the foreign node win a creation race: it inserts its own key under exactly the
// (id, created) the SDK is about to store (the SDK's insert must then be refused and the SDK must
// adopt the stored key).
func (f *ForeignNode) InsertSame(id string, created int64, isIK bool) bool {
	f.w.Faults.Fired["peer.inserts-same-stamp"]++
	if _, exists := f.w.Store.Rows[id][created]; exists {
		return false
	}
	key := f.bytes(32)
	if !isIK {
		doc := refimpl.MakeKeyRecord(created, f.w.KMS.Wrap(key, f.bytes(12)), nil, false)
		f.w.Store.put("foreign", id, created, doc, -1)
		f.w.S.Logf("foreign wins race %s@%d", id, created)
		return true
	}
	skc, sk, _ := f.EnsureSK(time.Second, 0, false)
	if sk == nil {
		return false
	}
	wrapped, _ := refimpl.Seal(sk, f.bytes(12), key)
	doc := refimpl.MakeKeyRecord(created, wrapped, &refimpl.KeyMeta{KeyID: f.w.SKID(), Created: skc}, false)
	f.w.Store.put("foreign", id, created, doc, -1)
	f.w.S.Logf("foreign wins race %s@%d", id, created)
	return true
}
