package world

import (
	"errors"
	"fmt"
	"io"
	"runtime"
	"strings"

	"github.com/godaddy/asherah/go/securememory"

	"verif/sim/refimpl"
	"verif/sim/simrt"
)

// SecretRec is the ledger entry of one secret handed out by the tracking factory.
type SecretRec struct {
	N          int
	FP         string
	Size       int
	Op         *OpRec
	Proc       int
	Random     bool
	Closing    bool
	Closed     bool
	Site       string // chain of SDK functions that created the secret (innermost first)
	CloseCalls int
	Readers    int
	bytes      []byte
	shadow     []byte // harness-private copy of the plaintext (never handed out), for leak scanning
}

// UACEvent is an access to a secret whose Close had begun.
type UACEvent struct {
	Secret *SecretRec
	Op     *OpRec
	What   string
}

// Ledger tracks every secret of a run.
type Ledger struct {
	w       *World
	Secrets []*SecretRec
	UAC     []UACEvent
}

// Live returns the secrets that are not closed.
func (l *Ledger) Live() []*SecretRec {
	var out []*SecretRec
	for _, s := range l.Secrets {
		if !s.Closed {
			out = append(out, s)
		}
	}
	return out
}

// LiveOf returns the live secrets created by a process.
func (l *Ledger) LiveOf(proc int) []*SecretRec {
	var out []*SecretRec
	for _, s := range l.Secrets {
		if !s.Closed && s.Proc == proc {
			out = append(out, s)
		}
	}
	return out
}

// ledgerFactory implements securememory.SecretFactory in pure Go with full accounting.
type ledgerFactory struct {
	w    *World
	proc int
}

var _ securememory.SecretFactory = (*ledgerFactory)(nil)

var errSecretClosed = errors.New("secret has already been destroyed")

func (f *ledgerFactory) New(b []byte) (securememory.Secret, error) {
	c, fault := f.w.enter("sf.new", f.proc, "", 0)
	if fault != FNone {
		f.w.leave(c, "err")
		return nil, fmt.Errorf("secret factory new: %w", errInjected)
	}
	if len(b) < 1 {
		f.w.leave(c, "invalid")
		return nil, errors.New("invalid secret length")
	}
	f.w.retain("sf.new.arg", b)
	rec := &SecretRec{N: len(f.w.Ledger.Secrets), FP: refimpl.FP(b), Size: len(b), Op: c.Op, Proc: f.proc, Site: sdkChain(), bytes: append([]byte(nil), b...), shadow: append([]byte(nil), b...)}
	for i := range b { // both real factories wipe the source
		b[i] = 0
	}
	f.w.Ledger.Secrets = append(f.w.Ledger.Secrets, rec)
	f.w.leave(c, fmt.Sprintf("secret#%d", rec.N))
	return &ledgerSecret{w: f.w, rec: rec}, nil
}

func (f *ledgerFactory) CreateRandom(size int) (securememory.Secret, error) {
	c, fault := f.w.enter("sf.rand", f.proc, "", 0)
	if fault != FNone {
		f.w.leave(c, "err")
		return nil, fmt.Errorf("secret factory random: %w", errInjected)
	}
	if size < 1 {
		f.w.leave(c, "invalid")
		return nil, errors.New("invalid secret length")
	}
	b := make([]byte, size)
	if _, err := f.w.S.RandRead(b); err != nil {
		f.w.leave(c, "randerr")
		return nil, err
	}
	rec := &SecretRec{N: len(f.w.Ledger.Secrets), FP: refimpl.FP(b), Size: size, Op: c.Op, Proc: f.proc, Random: true, Site: sdkChain(), bytes: b, shadow: append([]byte(nil), b...)}
	f.w.Ledger.Secrets = append(f.w.Ledger.Secrets, rec)
	f.w.leave(c, fmt.Sprintf("secret#%d", rec.N))
	return &ledgerSecret{w: f.w, rec: rec}, nil
}

type ledgerSecret struct {
	w   *World
	rec *SecretRec
}

func (s *ledgerSecret) access(what string) error {
	s.w.S.Point(simrt.KSeam, "secret.access")
	if s.rec.Closing || s.rec.Closed {
		s.w.Ledger.UAC = append(s.w.Ledger.UAC, UACEvent{Secret: s.rec, Op: s.w.curOp(), What: what})
		s.w.S.Logf("secret#%d %s after close", s.rec.N, what)
		return errSecretClosed
	}
	s.rec.Readers++
	return nil
}

func (s *ledgerSecret) release() {
	s.rec.Readers--
	s.w.S.Point(simrt.KSeam, "secret.release")
}

func (s *ledgerSecret) WithBytes(action func([]byte) error) error {
	if err := s.access("WithBytes"); err != nil {
		return err
	}
	defer s.release()
	return action(s.rec.bytes)
}

func (s *ledgerSecret) WithBytesFunc(action func([]byte) ([]byte, error)) ([]byte, error) {
	if err := s.access("WithBytesFunc"); err != nil {
		return nil, err
	}
	defer s.release()
	return action(s.rec.bytes)
}

func (s *ledgerSecret) IsClosed() bool { return s.rec.Closed }

func (s *ledgerSecret) Close() error {
	s.w.S.Point(simrt.KSeam, "secret.close")
	s.rec.CloseCalls++
	s.rec.Closing = true
	if s.rec.Closed {
		return nil
	}
	if s.rec.Readers > 0 {
		s.w.S.Probe("secret.close_waits_for_reader")
		s.w.S.Block("secret.close", func() bool { return s.rec.Readers == 0 })
	}
	if s.rec.Closed {
		return nil
	}
	for i := range s.rec.bytes {
		s.rec.bytes[i] = 0
	}
	s.rec.Closed = true
	if !s.rec.Random && s.w.InFlight > 1 {
		s.w.S.Probe("cachedkey.closed_while_other_operation_in_flight")
	}
	s.w.S.Logf("secret#%d closed", s.rec.N)
	return nil
}

type secretReader struct {
	s *ledgerSecret
	i int
}

func (r *secretReader) Read(p []byte) (n int, err error) {
	err = r.s.WithBytes(func(b []byte) error {
		if r.i >= len(b) {
			return io.EOF
		}
		n = copy(p, b[r.i:])
		r.i += n
		if r.i >= len(b) {
			return io.EOF
		}
		return nil
	})
	return
}

func (s *ledgerSecret) NewReader() io.Reader { return &secretReader{s: s} }

// sdkChain names the functions of the code under test on the current call stack (innermost
// first, at most 8), e.g. "NewCryptoKey<systemKeyFromEKR<loadSystemKey<...". It identifies the
// call site of an allocation in violation signatures.
func sdkChain() string {
	var pcs [48]uintptr
	n := runtime.Callers(3, pcs[:])
	frames := runtime.CallersFrames(pcs[:n])
	var out []string
	for {
		fr, more := frames.Next()
		if strings.Contains(fr.Function, "godaddy/asherah") {
			name := fr.Function
			if i := strings.LastIndex(name, "/"); i >= 0 {
				name = name[i+1:]
			}
			if i := strings.Index(name, "."); i >= 0 {
				name = name[i+1:]
			}
			name = strings.NewReplacer("(*", "", ")", "", "[...]", "").Replace(name)
			if len(out) == 0 || out[len(out)-1] != name {
				out = append(out, name)
			}
			if len(out) == 8 {
				break
			}
		}
		if !more {
			break
		}
	}
	return strings.Join(out, "<")
}

// retainingFactory wraps a real secure-memory factory: it remembers the heap slice it was handed
// (C10 re-reads it after the public call returned) and can be made to fail before touching it.
type retainingFactory struct {
	w     *World
	proc  int
	inner securememory.SecretFactory
}

func (f *retainingFactory) New(b []byte) (securememory.Secret, error) {
	c, fault := f.w.enter("sf.new", f.proc, "", 0)
	f.w.retain("sf.new.arg", b)
	if fault != FNone {
		f.w.leave(c, "err")
		return nil, fmt.Errorf("secret factory new: %w", errInjected)
	}
	s, err := f.inner.New(b)
	f.w.leave(c, "real")
	if err != nil {
		return nil, err
	}
	return &releaseFaultSecret{Secret: s, w: f.w, proc: f.proc}, nil
}

func (f *retainingFactory) CreateRandom(size int) (securememory.Secret, error) {
	c, fault := f.w.enter("sf.rand", f.proc, "", 0)
	if fault != FNone {
		f.w.leave(c, "err")
		return nil, fmt.Errorf("secret factory random: %w", errInjected)
	}
	s, err := f.inner.CreateRandom(size)
	f.w.leave(c, "real")
	if err != nil {
		return nil, err
	}
	return &releaseFaultSecret{Secret: s, w: f.w, proc: f.proc}, nil
}

// releaseFaultSecret is a real secret whose access can be made to report what both implementations
// report when re-protecting the pages after the callback fails (the kernel refuses the mprotect): the
// callback's result together with an error.
type releaseFaultSecret struct {
	securememory.Secret
	w    *World
	proc int
}

var errRelease = errors.New("unable to mark memory as no-access: verif: injected mprotect failure")

func (r *releaseFaultSecret) WithBytesFunc(action func([]byte) ([]byte, error)) ([]byte, error) {
	ret, err := r.Secret.WithBytesFunc(action)
	c, fault := r.w.enter("sf.release", r.proc, "", 0)
	if fault != FNone {
		r.w.leave(c, "err")
		if err == nil {
			err = errRelease
		} else {
			err = fmt.Errorf("%w: %v", errRelease, err)
		}
		return ret, err
	}
	r.w.leave(c, "ok")
	return ret, err
}

func (r *releaseFaultSecret) WithBytes(action func([]byte) error) error {
	err := r.Secret.WithBytes(action)
	c, fault := r.w.enter("sf.release", r.proc, "", 0)
	if fault != FNone {
		r.w.leave(c, "err")
		if err == nil {
			return errRelease
		}
		return fmt.Errorf("%w: %v", errRelease, err)
	}
	r.w.leave(c, "ok")
	return err
}
