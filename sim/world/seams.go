package world

import (
	"bytes"
	"context"
	"crypto/aes"
	"crypto/cipher"
	"encoding/base64"
	"encoding/json"
	"errors"
	"fmt"
	"strings"
	"time"

	"github.com/godaddy/asherah/go/appencryption"

	"verif/sim/refimpl"
	"verif/sim/simrt"
)

// ---------------------------------------------------------------------------------------------
// operations and call records

// OpRec is one harness-level operation (an SDK call made on behalf of a simulated client).
type OpRec struct {
	Idx       int
	Kind      string
	Proc      int
	Part      string
	T0, T1    time.Duration
	Done      bool          // the operation has returned (T1 is meaningful)
	Skew      time.Duration // clock offset of the acting process
	offNode   func()
	Calls     int // seam calls made inside this operation (metastore, KMS, AEAD, secret factory)
	MSCalls   int
	KMSCalls  int
	Faulted   int  // faults fired inside this operation
	InjPanic  bool // an injected panic (aead.panic) unwound the operation; Err is set to an injected error
	Refused   int  // KMS unwraps refused inside this operation because the key is revoked (World.KMSRefusesRevoked)
	FaultDesc []string
	Err       error
	Panic     string
	// Cancel cancels the context the operation was invoked with (set by the harness).
	Cancel    func()
	Cancelled bool
}

// CallRec is one call at an external seam.
type CallRec struct {
	Seq        int
	Op         *OpRec
	Proc       int
	Class      string // ms.load ms.latest ms.store kms.enc kms.dec aead.enc aead.dec sf.new sf.rand
	ID         string
	Created    int64
	T0, T1     time.Duration
	Fault      string
	Result     string // ok / nil / dup / err
	Revoked    bool   // for loads: the revoked flag the SDK was shown
	RetCreated int64
	Parent     int64 // created stamp of the parent key named by the row loaded / stored (0 if none)
}

func (w *World) curOp() *OpRec {
	if t := w.S.Cur(); t != nil {
		if op, ok := t.Local.(*OpRec); ok {
			return op
		}
	}
	return nil
}

// ---------------------------------------------------------------------------------------------
// fault plan

// Fault kinds.
const (
	FNone      = ""
	FErrBefore = "err-before" // call fails, nothing applied
	FErrAfter  = "err-after"  // call applied, error returned (lost acknowledgement)
	FFalseDup  = "false-dup"  // Store reports (false,nil) without inserting
	FLatency   = "latency"
	FRace      = "race"  // Store only: another writer inserts the same (id, created) just before us
	FPanic     = "panic" // AEAD only: the cipher panics (a third-party AEAD may) while it is handed a heap copy of a key
)

// FaultPlan decides, call by call, what goes wrong.
type FaultPlan struct {
	// random mode
	Random   bool
	RateNum  int
	RateDen  int
	MaxPerOp int
	Kinds    map[string]bool // enabled: ms.err ms.errafter ms.falsedup kms.err aead.err alloc.err rand.err latency
	// sweep mode: fault the SweepCall-th seam call (0-based, counted over all classes) of operation SweepOp
	SweepOp    int
	SweepCall  int
	SweepKind  string // err-before / err-after / false-dup
	Sweep2Call int    // optional second fault (-1 = none)
	Sweep2Kind string
	// partition window: every metastore/KMS call of these procs fails
	Partitioned map[int]bool
	// bookkeeping
	Fired       map[string]int
	LastFaultOp int
	Off         bool // master switch (faults stop)
}

func newFaultPlan() *FaultPlan {
	return &FaultPlan{Kinds: map[string]bool{}, Fired: map[string]int{}, SweepOp: -1, Sweep2Call: -1, Partitioned: map[int]bool{}, LastFaultOp: -1, RateNum: 1, RateDen: 8, MaxPerOp: 2}
}

var errInjected = errors.New("verif: injected failure")

// IsInjected reports whether err is (or wraps) an injected fault.
func IsInjected(err error) bool { return err != nil && (errors.Is(err, errInjected)) }

// decide is called once per seam call, after the call index of the operation was assigned.
func (w *World) decide(class string, proc int, callIdx int, op *OpRec) string {
	fp := w.Faults
	if fp.Off {
		return FNone
	}
	kind := FNone
	isMS := class == "ms.load" || class == "ms.latest" || class == "ms.store"
	isKMS := class == "kms.enc" || class == "kms.dec"
	if fp.Partitioned[proc] && (isMS || isKMS) {
		kind = FErrBefore
	} else if op != nil && fp.SweepOp == op.Idx && (callIdx == fp.SweepCall || callIdx == fp.Sweep2Call) {
		k := fp.SweepKind
		if callIdx == fp.Sweep2Call && callIdx != fp.SweepCall {
			k = fp.Sweep2Kind
		}
		switch k {
		case FErrBefore:
			kind = FErrBefore
		case FErrAfter:
			if isMS || isKMS {
				kind = FErrAfter
			}
		case FFalseDup:
			if class == "ms.store" {
				kind = FFalseDup
			}
		case FRace:
			if class == "ms.store" {
				kind = FRace
			}
		}
	} else if fp.Random && op != nil && op.Faulted < fp.MaxPerOp {
		var cands []string
		switch {
		case isMS:
			if fp.Kinds["ms.err"] && !(class == "ms.store" && fp.Kinds["ms.readonly-faults"]) {
				cands = append(cands, FErrBefore)
			}
			if fp.Kinds["ms.errafter"] {
				cands = append(cands, FErrAfter)
			}
			if class == "ms.store" && fp.Kinds["ms.falsedup"] {
				cands = append(cands, FFalseDup)
			}
			if class == "ms.store" && fp.Kinds["ms.race"] {
				cands = append(cands, FRace)
			}
		case isKMS:
			if fp.Kinds["kms.err"] {
				cands = append(cands, FErrBefore)
			}
		case class == "aead.enc" || class == "aead.dec":
			if fp.Kinds["aead.err"] {
				cands = append(cands, FErrBefore)
			}
		case class == "sf.new" || class == "sf.rand":
			if fp.Kinds["alloc.err"] {
				cands = append(cands, FErrBefore)
			}
		case class == "sf.release":
			if fp.Kinds["release.err"] {
				cands = append(cands, FErrBefore)
			}
		}
		if len(cands) > 0 && w.T.Chance(fp.RateNum, fp.RateDen, "fault?") {
			kind = cands[w.T.Choose(len(cands), "fault.kind")]
		}
	}
	if kind != FNone {
		fp.Fired[class+":"+kind]++
		if op != nil {
			op.Faulted++
			op.FaultDesc = append(op.FaultDesc, fmt.Sprintf("%s#%d:%s", class, callIdx, kind))
			fp.LastFaultOp = op.Idx
		}
		w.S.Logf("fault %s %s", class, kind)
	}
	return kind
}

// enter records the start of a seam call and returns its record plus the fault to apply.
func (w *World) enter(class string, proc int, id string, created int64) (*CallRec, string) {
	w.S.Point(simrt.KSeam, class)
	op := w.curOp()
	idx := 0
	if op != nil {
		idx = op.Calls
		op.Calls++
		switch class {
		case "ms.load", "ms.latest", "ms.store":
			op.MSCalls++
		case "kms.enc", "kms.dec":
			op.KMSCalls++
		}
	}
	c := &CallRec{Seq: len(w.Calls), Op: op, Proc: proc, Class: class, ID: id, Created: created, T0: w.S.Elapsed()}
	w.Calls = append(w.Calls, c)
	f := w.decide(class, proc, idx, op)
	c.Fault = f
	// the caller's context may be cancelled while a metastore/KMS call is in flight (the call itself
	// still completes): nothing in flight may be left behind because of it
	if f == FNone && op != nil && op.Cancel != nil && !op.Cancelled && w.Faults.Kinds["ctx.cancel"] && !w.Faults.Off &&
		(class == "kms.dec" || class == "kms.enc" || class == "ms.load" || class == "ms.latest" || class == "ms.store") && w.T.Chance(1, 10, "ctx.cancel?") {
		op.Cancelled = true
		op.Faulted++
		op.FaultDesc = append(op.FaultDesc, fmt.Sprintf("%s#%d:ctx-cancelled", class, idx))
		w.Faults.Fired["ctx.cancel"]++
		w.S.Logf("ctx cancelled during %s", class)
		op.Cancel()
	}
	if lat := w.latency(class); lat > 0 {
		w.S.Sleep(lat)
	}
	return c, f
}

func (w *World) leave(c *CallRec, result string) {
	c.T1 = w.S.Elapsed()
	c.Result = result
	w.S.Logf("%s p%d %s@%d -> %s", c.Class, c.Proc, c.ID, c.Created, result)
	w.S.Point(simrt.KSeam, c.Class+".ret")
}

func (w *World) latency(class string) time.Duration {
	if !w.Faults.Kinds["latency"] || w.Faults.Off {
		return 0
	}
	switch class {
	case "ms.load", "ms.latest", "ms.store", "kms.enc", "kms.dec":
	default:
		return 0
	}
	if !w.T.Chance(1, 12, "latency?") {
		return 0
	}
	menu := w.LatencyMenu
	if len(menu) == 0 {
		menu = []time.Duration{time.Millisecond, time.Second}
	}
	w.Faults.Fired["latency"]++
	return menu[w.T.Choose(len(menu), "latency")]
}

// ---------------------------------------------------------------------------------------------
// metastore

// SimStore is the authoritative key table: documents are kept as serialized JSON bytes exactly
// as the documentation describes them.
type SimStore struct {
	w    *World
	Rows refimpl.Store
	// insert log: every mutation with its origin
	Log []StoreEvent
	// bytes of each row at insert time, for the "never modified" check
	AtInsert refimpl.Store
}

// StoreEvent is one mutation of the table.
type StoreEvent struct {
	By      string // "sdk:p<n>", "operator", "foreign", "corrupt"
	Kind    string // insert / revoke / corrupt / drop
	ID      string
	Created int64
	T       time.Duration
	Op      int
}

func (st *SimStore) put(by, id string, created int64, doc []byte, op int) {
	if st.Rows[id] == nil {
		st.Rows[id] = map[int64][]byte{}
		st.AtInsert[id] = map[int64][]byte{}
	}
	st.Rows[id][created] = append([]byte(nil), doc...)
	st.AtInsert[id][created] = append([]byte(nil), doc...)
	st.Log = append(st.Log, StoreEvent{By: by, Kind: "insert", ID: id, Created: created, T: st.w.S.Elapsed(), Op: op})
	if st.w.Mem != nil && !strings.HasPrefix(by, "sdk:") {
		if kr, err := refimpl.ParseKeyRecord(doc); err == nil {
			st.w.Mem.Store(context.Background(), id, created, toEKR(id, kr))
		}
	}
}

// Revoke flips the Revoked flag of a row out of band (the operator).
func (st *SimStore) Revoke(id string, created int64) bool {
	kr, _ := st.Rows.Get(id, created)
	if kr == nil || kr.Revoked {
		return false
	}
	kr.Revoked = true
	st.Rows[id][created] = refimpl.MakeKeyRecord(kr.Created, kr.KeyBytes(), kr.ParentKeyMeta, true)
	st.AtInsert[id][created] = append([]byte(nil), st.Rows[id][created]...)
	st.w.Faults.Fired["operator.revoke-key"]++
	st.Log = append(st.Log, StoreEvent{By: "operator", Kind: "revoke", ID: id, Created: created, T: st.w.S.Elapsed(), Op: -1})
	if st.w.Mem != nil {
		if e := st.w.Mem.Envelopes[id][created]; e != nil {
			e.Revoked = true
		}
	}
	st.w.S.Logf("operator revoke %s@%d", id, created)
	return true
}

func toEKR(id string, kr *refimpl.KeyRecord) *appencryption.EnvelopeKeyRecord {
	e := &appencryption.EnvelopeKeyRecord{ID: id, Created: kr.Created, EncryptedKey: kr.KeyBytes(), Revoked: kr.Revoked}
	if kr.ParentKeyMeta != nil {
		e.ParentKeyMeta = &appencryption.KeyMeta{ID: kr.ParentKeyMeta.KeyID, Created: kr.ParentKeyMeta.Created}
	}
	return e
}

func fromEKR(e *appencryption.EnvelopeKeyRecord) []byte {
	var pm *refimpl.KeyMeta
	if e.ParentKeyMeta != nil {
		pm = &refimpl.KeyMeta{KeyID: e.ParentKeyMeta.ID, Created: e.ParentKeyMeta.Created}
	}
	return refimpl.MakeKeyRecord(e.Created, e.EncryptedKey, pm, e.Revoked)
}

// msView is the metastore as one process sees it.
type msView struct {
	w    *World
	proc int
}

var _ appencryption.Metastore = (*msView)(nil)

func (m *msView) Load(_ context.Context, id string, created int64) (*appencryption.EnvelopeKeyRecord, error) {
	c, f := m.w.enter("ms.load", m.proc, id, created)
	if f == FErrBefore || f == FErrAfter {
		m.w.leave(c, "err")
		return nil, fmt.Errorf("metastore load: %w", errInjected)
	}
	kr, err := m.w.Store.Rows.Get(id, created)
	if err != nil {
		// a corrupted document: the back end reports a decode error
		m.w.leave(c, "decode-err")
		return nil, fmt.Errorf("metastore load: corrupt row: %v", err)
	}
	if kr == nil {
		m.w.leave(c, "nil")
		return nil, nil
	}
	c.Revoked = kr.Revoked
	c.RetCreated = kr.Created
	if kr.ParentKeyMeta != nil {
		c.Parent = kr.ParentKeyMeta.Created
	}
	m.w.leave(c, "ok")
	if m.w.Mem != nil {
		// the repository's in-memory metastore hands out its own stored pointer
		return m.w.Mem.Load(context.Background(), id, created)
	}
	return toEKR(id, kr), nil
}

func (m *msView) LoadLatest(_ context.Context, id string) (*appencryption.EnvelopeKeyRecord, error) {
	c, f := m.w.enter("ms.latest", m.proc, id, 0)
	if f == FErrBefore || f == FErrAfter {
		m.w.leave(c, "err")
		return nil, fmt.Errorf("metastore loadlatest: %w", errInjected)
	}
	created, ok := m.w.Store.Rows.Latest(id)
	if !ok {
		m.w.leave(c, "nil")
		return nil, nil
	}
	kr, err := m.w.Store.Rows.Get(id, created)
	if err != nil {
		m.w.leave(c, "decode-err")
		return nil, fmt.Errorf("metastore loadlatest: corrupt row: %v", err)
	}
	c.Revoked = kr.Revoked
	c.RetCreated = kr.Created
	if kr.ParentKeyMeta != nil {
		c.Parent = kr.ParentKeyMeta.Created
	}
	m.w.leave(c, "ok")
	if m.w.Mem != nil {
		return m.w.Mem.LoadLatest(context.Background(), id)
	}
	return toEKR(id, kr), nil
}

func (m *msView) Store(_ context.Context, id string, created int64, e *appencryption.EnvelopeKeyRecord) (bool, error) {
	c, f := m.w.enter("ms.store", m.proc, id, created)
	if e != nil && e.ParentKeyMeta != nil {
		c.Parent = e.ParentKeyMeta.Created
	}
	if f == FErrBefore {
		m.w.leave(c, "err")
		return false, fmt.Errorf("metastore store: %w", errInjected)
	}
	if f == FFalseDup {
		m.w.leave(c, "false-dup")
		return false, nil
	}
	opIdx := -1
	if c.Op != nil {
		opIdx = c.Op.Idx
	}
	if f == FRace {
		m.w.Foreign().InsertSame(id, created, e.ParentKeyMeta != nil)
	}
	_, exists := m.w.Store.Rows[id][created]
	if m.w.KeepEKRJSON {
		if b, err := json.Marshal(e); err == nil {
			m.w.EKRJSON = append(m.w.EKRJSON, EKRDoc{ID: id, Created: created, JSON: b, EKR: *e})
		}
	}
	if m.w.ScanLeaks {
		m.w.scanLeak("metastore-row", fromEKR(e), false)
		m.w.scanLeak("metastore-row.key", e.EncryptedKey, false)
	}
	if !exists {
		m.w.Store.put(fmt.Sprintf("sdk:p%d", m.proc), id, created, fromEKR(e), opIdx)
		if m.w.Mem != nil {
			m.w.Mem.Store(context.Background(), id, created, e)
		}
	}
	if f == FErrAfter {
		m.w.leave(c, "err-after")
		return false, fmt.Errorf("metastore store (ack lost): %w", errInjected)
	}
	if exists {
		m.w.S.Probe("metastore.duplicate_insert_refused")
		m.w.leave(c, "dup")
		return false, nil
	}
	m.w.leave(c, "ok")
	return true, nil
}

// msViewSuffixed additionally advertises a region suffix (as the DynamoDB metastores can).
type msViewSuffixed struct {
	msView
	suffix string
}

func (m *msViewSuffixed) GetRegionSuffix() string {
	// a configuration getter of the metastore plugin: a scheduling point like every other call into it
	m.w.S.Point(simrt.KSeam, "ms.region-suffix")
	return m.suffix
}

// ---------------------------------------------------------------------------------------------
// KMS

// SimKMS wraps system keys under a fixed master key with Go's crypto directly (independent of the
// code under test).
type SimKMS struct {
	w      *World
	master []byte
	// fingerprints of every plaintext handed in for wrapping
	Wrapped map[string]int
}

func newSimKMS(w *World) *SimKMS {
	mk := make([]byte, 32)
	for i := range mk {
		mk[i] = byte(0xA0 + i)
	}
	return &SimKMS{w: w, master: mk, Wrapped: map[string]int{}}
}

func (k *SimKMS) gcm() cipher.AEAD {
	b, _ := aes.NewCipher(k.master)
	g, _ := cipher.NewGCM(b)
	return g
}

// Wrap produces nonce||ciphertext (the KMS's own opaque format).
func (k *SimKMS) Wrap(plain []byte, nonce []byte) []byte {
	return append(append([]byte(nil), nonce...), k.gcm().Seal(nil, nonce, plain, nil)...)
}

// Unwrap implements refimpl.KMS.
func (k *SimKMS) Unwrap(blob []byte) ([]byte, error) {
	if len(blob) < 12+16 {
		return nil, errors.New("simkms: blob too short")
	}
	return k.gcm().Open(nil, blob[:12], blob[12:], nil)
}

type kmsView struct {
	w    *World
	proc int
}

var _ appencryption.KeyManagementService = (*kmsView)(nil)

func (v *kmsView) EncryptKey(_ context.Context, key []byte) ([]byte, error) {
	logID := refimpl.FP(key)
	if v.w.RealSecrets != 0 {
		logID = "-" // real secure memory draws its own randomness: keep it out of the event log
	}
	c, f := v.w.enter("kms.enc", v.proc, logID, 0)
	v.w.KMS.Wrapped[refimpl.FP(key)]++
	v.w.scanLeak("kms-request", key, true)
	if f == FErrBefore {
		v.w.leave(c, "err")
		return nil, fmt.Errorf("kms encrypt: %w", errInjected)
	}
	nonce := make([]byte, 12)
	v.w.S.RandRead(nonce)
	out := v.w.KMS.Wrap(key, nonce)
	if f == FErrAfter {
		v.w.leave(c, "err-after")
		return nil, fmt.Errorf("kms encrypt (response lost): %w", errInjected)
	}
	v.w.leave(c, "ok")
	return out, nil
}

func (v *kmsView) DecryptKey(_ context.Context, blob []byte) ([]byte, error) {
	c, f := v.w.enter("kms.dec", v.proc, base64.StdEncoding.EncodeToString(blob[:min(8, len(blob))]), 0)
	if f == FErrBefore || f == FErrAfter {
		v.w.leave(c, "err")
		return nil, fmt.Errorf("kms decrypt: %w", errInjected)
	}
	if v.w.KMSRefusesRevoked && !v.w.Faults.Off {
		// the incident that led to the revocation also disabled the master key version that wraps the
		// revoked system key: the KMS refuses to unwrap it, persistently; new keys wrap and unwrap fine
		for created := range v.w.Store.Rows[v.w.SKID()] {
			if row, _ := v.w.Store.Rows.Get(v.w.SKID(), created); row != nil && row.Revoked && bytes.Equal(row.KeyBytes(), blob) {
				if c.Op != nil {
					c.Op.Refused++
				}
				v.w.Faults.Fired["kms.refuses-revoked-key"]++
				v.w.leave(c, "refused")
				return nil, errors.New("kms decrypt: DisabledException: the master key version is disabled")
			}
		}
	}
	out, err := v.w.KMS.Unwrap(blob)
	if err != nil {
		v.w.leave(c, "badblob")
		return nil, fmt.Errorf("kms decrypt: %v", err)
	}
	v.w.retain("kms.dec", out)
	v.w.leave(c, "ok")
	return out, nil
}

// ---------------------------------------------------------------------------------------------
// AEAD spy

// AEADCall is one cipher invocation seen at the seam.
type AEADCall struct {
	Op      *OpRec
	Enc     bool
	KeyFP   string
	Nonce   string
	DataFP  string // fingerprint of the plaintext (enc) / result (dec)
	DataLen int
	OK      bool
}

type aeadView struct {
	w    *World
	proc int
	real appencryption.AEAD
}

var _ appencryption.AEAD = (*aeadView)(nil)

func (a *aeadView) Encrypt(data, key []byte) ([]byte, error) {
	c, f := a.w.enter("aead.enc", a.proc, "", 0)
	if f != FNone {
		a.w.leave(c, "err")
		return nil, fmt.Errorf("aead encrypt: %w", errInjected)
	}
	out, err := a.real.Encrypt(data, key)
	call := &AEADCall{Op: c.Op, Enc: true, KeyFP: refimpl.FP(key), DataFP: refimpl.FP(data), DataLen: len(data), OK: err == nil}
	if err == nil {
		call.Nonce = string(refimpl.Nonce(out))
	}
	a.w.AEADCalls = append(a.w.AEADCalls, call)
	if err != nil {
		a.w.leave(c, "realerr")
		return nil, err
	}
	a.w.leave(c, "ok")
	return out, nil
}

func (a *aeadView) Decrypt(data, key []byte) ([]byte, error) {
	c, f := a.w.enter("aead.dec", a.proc, "", 0)
	if f != FNone {
		a.w.leave(c, "err")
		return nil, fmt.Errorf("aead decrypt: %w", errInjected)
	}
	// "aead.panic": the cipher is an interface the application supplies, and its failure mode may be a
	// panic rather than an error. Injected only while the key argument IS a heap copy of a key that this
	// same operation obtained from an earlier unwrap (the data row key in decryptRow): a failure "after
	// the plaintext exists". The tape is consulted only when the kind is enabled.
	if fp := a.w.Faults; fp.Kinds["aead.panic"] && !fp.Off && c.Op != nil && c.Op.Faulted < fp.MaxPerOp && a.w.heapKeyOf(c.Op, key) &&
		a.w.T.Chance(1, 3, "aead.panic?") {
		fp.Fired["aead.dec:"+FPanic]++
		c.Op.Faulted++
		c.Op.FaultDesc = append(c.Op.FaultDesc, fmt.Sprintf("aead.dec#%d:%s", c.Op.Calls-1, FPanic))
		fp.LastFaultOp = c.Op.Idx
		c.Fault = FPanic
		a.w.S.Logf("fault aead.dec panic")
		a.w.leave(c, "panic")
		panic(InjectedPanic{})
	}
	out, err := a.real.Decrypt(data, key)
	call := &AEADCall{Op: c.Op, Enc: false, KeyFP: refimpl.FP(key), DataLen: len(out), OK: err == nil}
	if err == nil {
		call.DataFP = refimpl.FP(out)
		if len(out) == 32 {
			a.w.retain("aead.dec", out)
			a.w.lastKeyOut, a.w.lastKeyOp = out, c.Op
		}
	}
	a.w.AEADCalls = append(a.w.AEADCalls, call)
	if err != nil {
		a.w.leave(c, "realerr")
		return nil, err
	}
	a.w.leave(c, "ok")
	return out, nil
}

// ---------------------------------------------------------------------------------------------
// retained heap buffers (C10)

// Retained is a heap slice that held key plaintext when it was handed to the SDK.
type Retained struct {
	Src string
	Buf []byte
	FP  string
	Op  *OpRec
}

// InjectedPanic is what an injected "aead.panic" fault panics with.
type InjectedPanic struct{}

func (InjectedPanic) Error() string { return "verif: injected panic" }

// heapKeyOf reports whether key is (shares its first byte with) a heap buffer retained during op.
func (w *World) heapKeyOf(op *OpRec, key []byte) bool {
	if len(key) == 0 {
		return false
	}
	if w.lastKeyOp == op && len(w.lastKeyOut) > 0 && &w.lastKeyOut[0] == &key[0] {
		return true // engines that do not retain buffers (C09)
	}
	for i := len(w.Retained) - 1; i >= 0; i-- {
		r := w.Retained[i]
		if r.Op != op {
			break
		}
		if len(r.Buf) > 0 && &r.Buf[0] == &key[0] {
			return true
		}
	}
	return false
}

func (w *World) retain(src string, b []byte) {
	if !w.RetainBuffers {
		return
	}
	w.Retained = append(w.Retained, &Retained{Src: src, Buf: b, FP: refimpl.FP(b), Op: w.curOp()})
}
