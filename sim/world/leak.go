package world

import (
	"bytes"
	"encoding/base64"
	"encoding/hex"
	"strconv"
	"strings"
)

// Sensitive material registered for leak scanning (C03): raw bytes of every key the harness can
// know (secrets in the ledger) and every unique payload of at least 16 bytes.
type sensitive struct {
	what string
	raw  []byte
}

// scanLeak searches an emitted byte string for plaintext key material or payload bytes in raw,
// base64 (std / url, any alignment) and hex form. isKMSRequest: the string is a KMS wrap request,
// where exactly a system key plaintext is expected (audited separately at the end of the run).
func (w *World) scanLeak(where string, emitted []byte, isKMSRequest bool) {
	if !w.ScanLeaks {
		return
	}
	w.Emitted++
	if isKMSRequest {
		w.kmsRequests = append(w.kmsRequests, append([]byte(nil), emitted...))
		return
	}
	w.indexSensitive()
	for i := 0; i+4 <= len(emitted); i++ {
		k := uint32(emitted[i]) | uint32(emitted[i+1])<<8 | uint32(emitted[i+2])<<16 | uint32(emitted[i+3])<<24
		for _, p := range w.patIndex[k] {
			if bytes.HasPrefix(emitted[i:], p.pat) {
				w.Violate("plaintext-leak", "plaintext-leak/"+where+"/"+p.what, "%s contains %s plaintext (%s form)", where, p.what, p.form)
				return
			}
		}
	}
}

type leakPattern struct {
	pat  []byte
	what string
	form string
}

func (w *World) addPatterns(what string, raw []byte) {
	if len(raw) < 16 {
		return
	}
	add := func(pat []byte, form string) {
		if len(pat) < 8 {
			return
		}
		k := uint32(pat[0]) | uint32(pat[1])<<8 | uint32(pat[2])<<16 | uint32(pat[3])<<24
		if w.patIndex == nil {
			w.patIndex = map[uint32][]leakPattern{}
		}
		w.patIndex[k] = append(w.patIndex[k], leakPattern{pat, what, form})
	}
	win := raw[:16]
	add(append([]byte(nil), win...), "raw")
	add([]byte(hex.EncodeToString(win)), "hex")
	add([]byte(strings.ToUpper(hex.EncodeToString(win))), "HEX")
	// Go's default formatting of a byte slice (%v / %+v of a struct holding it): "[205 130 7 ...]"
	dec := make([]string, 8)
	for i := 0; i < 8; i++ {
		dec[i] = strconv.Itoa(int(raw[i]))
	}
	add([]byte(strings.Join(dec, " ")), "decimal list")
	add([]byte(strings.Join(dec, ",")), "decimal list")
	add([]byte(strings.Join(dec, ", ")), "decimal list")
	// base64 of a substring depends on alignment: index the three alignments of the interior
	for off := 0; off < 3; off++ {
		inner := raw[off:]
		if len(inner) > 15+off {
			inner = inner[:15]
		}
		inner = inner[:len(inner)/3*3]
		add([]byte(base64.RawStdEncoding.EncodeToString(inner)), "base64")
		add([]byte(base64.RawURLEncoding.EncodeToString(inner)), "base64url")
	}
}

func (w *World) indexSensitive() {
	for ; w.indexedSecrets < len(w.Ledger.Secrets); w.indexedSecrets++ {
		w.addPatterns("key", w.Ledger.Secrets[w.indexedSecrets].shadow)
	}
	for ; w.indexedPayloads < len(w.sensPayloads); w.indexedPayloads++ {
		w.addPatterns("payload", w.sensPayloads[w.indexedPayloads])
	}
}

// LogLine receives a rendered debug log line of the SDK (C03 scans it for plaintext).
func (w *World) LogLine(line string) {
	w.LogLines++
	w.scanLeak("debug-log", []byte(line), false)
}

// AddSensitivePayload registers a payload for leak scanning.
func (w *World) AddSensitivePayload(p []byte) {
	if len(p) >= 16 {
		w.sensPayloads = append(w.sensPayloads, append([]byte(nil), p...))
	}
}

// KMSRequests returns the plaintexts handed to the KMS for wrapping.
func (w *World) KMSRequests() [][]byte { return w.kmsRequests }

// SecretShadow returns the harness-private copy of a secret's plaintext.
func (s *SecretRec) Shadow() []byte { return s.shadow }

// AddSensitiveKey registers key plaintext the harness learned outside the ledger (e.g. a cloud KMS data key).
func (w *World) AddSensitiveKey(b []byte) {
	if len(b) >= 16 {
		w.addPatterns("key", append([]byte(nil), b...))
	}
}

// ScanEmitted scans an arbitrary emitted byte string (used by engines that own their seams).
func (w *World) ScanEmitted(where string, b []byte) { w.scanLeak(where, b, false) }
