package world

import (
	"bytes"
	"encoding/base64"
	"encoding/hex"
)

// Sensitive material registered for leak scanning (C03): raw bytes of every key the harness can
// know (secrets in the ledger) and every unique payload of at least 16 bytes.
type sensitive struct {
	what string
	raw  []byte
}

// scanLeak searches an emitted byte string for plaintext key material or payload bytes in raw,
// base64 (std / url, padded or not) and hex form. allowSK: the string is a KMS wrap request, where
// exactly a system key plaintext is expected.
func (w *World) scanLeak(where string, emitted []byte, isKMSRequest bool) {
	if !w.ScanLeaks {
		return
	}
	w.Emitted++
	if isKMSRequest {
		// handled by the C03 oracle (it needs to know which keys are system keys at the end)
		w.kmsRequests = append(w.kmsRequests, append([]byte(nil), emitted...))
		return
	}
	for _, s := range w.sensitiveNow() {
		if containsEncoded(emitted, s.raw) {
			w.Violate("plaintext-leak", "plaintext-leak/"+where+"/"+s.what, "%s contains %s plaintext", where, s.what)
			return
		}
	}
}

func (w *World) sensitiveNow() []sensitive {
	var out []sensitive
	for _, s := range w.Ledger.Secrets {
		if len(s.shadow) >= 16 {
			out = append(out, sensitive{"key", s.shadow})
		}
	}
	for _, p := range w.sensPayloads {
		out = append(out, sensitive{"payload", p})
	}
	return out
}

func containsEncoded(hay, needle []byte) bool {
	if len(needle) == 0 {
		return false
	}
	if bytes.Contains(hay, needle) {
		return true
	}
	if bytes.Contains(hay, []byte(hex.EncodeToString(needle))) {
		return true
	}
	// base64 of a substring depends on alignment: try the three alignments of the interior
	for off := 0; off < 3; off++ {
		if len(needle)-off < 12 {
			break
		}
		inner := needle[off:]
		inner = inner[:len(inner)/3*3]
		for _, enc := range []*base64.Encoding{base64.RawStdEncoding, base64.RawURLEncoding} {
			if bytes.Contains(hay, []byte(enc.EncodeToString(inner))) {
				return true
			}
		}
	}
	return false
}
