// Package world is the simulated deployment of the SDK: N application processes (each a real
// SessionFactory with its own caches and tracked secrets) sharing one metastore and one KMS, an
// operator who revokes keys, and a virtual clock. Every call that leaves a process goes through a
// seam owned by the simulator.
package world

import (
	"context"
	"encoding/json"
	"fmt"
	"runtime/debug"
	"strings"
	"time"

	"github.com/godaddy/asherah/go/appencryption"
	"github.com/godaddy/asherah/go/appencryption/pkg/crypto/aead"
	"github.com/godaddy/asherah/go/appencryption/pkg/persistence"
	"github.com/godaddy/asherah/go/securememory"
	"github.com/godaddy/asherah/go/securememory/memguard"
	"github.com/godaddy/asherah/go/securememory/protectedmemory"

	"verif/sim/refimpl"
	"verif/sim/simrt"
)

// Violation is one property violation found by an oracle.
type Violation struct {
	Prop      string `json:"property"`
	Rule      string `json:"rule"`
	Signature string `json:"signature"`
	Msg       string `json:"message"`
}

// PolicyCfg is the swarm-chosen crypto policy of one process.
type PolicyCfg struct {
	CacheSK, CacheIK   bool
	SKPolicy, IKPolicy string
	SKCap, IKCap       int
	SharedIK           bool
	SessionCache       bool
	SessSize           int
	SessDur            time.Duration
	SessPolicy         string
	Expire, Revoke     time.Duration
	Precision          time.Duration
}

func (c PolicyCfg) String() string {
	return fmt.Sprintf("sk=%v/%s/%d ik=%v/%s/%d shared=%v sess=%v/%d/%v/%s exp=%v rev=%v prec=%v",
		c.CacheSK, c.SKPolicy, c.SKCap, c.CacheIK, c.IKPolicy, c.IKCap, c.SharedIK, c.SessionCache, c.SessSize, c.SessDur, c.SessPolicy, c.Expire, c.Revoke, c.Precision)
}

// Class is a coarse label used to count distinct configurations.
func (c PolicyCfg) Class() string {
	capc := func(n int) string {
		switch {
		case n <= 3:
			return "tiny"
		case n < 100:
			return "sync"
		default:
			return "async"
		}
	}
	return fmt.Sprintf("sk=%v/%s/%s ik=%v/%s/%s sh=%v se=%v/%s", c.CacheSK, c.SKPolicy, capc(c.SKCap), c.CacheIK, c.IKPolicy, capc(c.IKCap), c.SharedIK, c.SessionCache, c.SessPolicy)
}

// SharedIKCache reports whether, by the documented policy, the sessions of a factory share one
// intermediate-key cache: "SharedIntermediateKeyCache ... is ignored if CacheIntermediateKeys is disabled".
func (c PolicyCfg) SharedIKCache() bool { return c.CacheIK && c.SharedIK }

// Build returns the SDK policy object.
func (c PolicyCfg) Build() *appencryption.CryptoPolicy {
	// what the option functions can express is expressed through them, in the order an application
	// would write it (caching off first, then the cache it still wants); the rest is set on the struct
	var opts []appencryption.PolicyOption
	noCache := !c.CacheSK && !c.CacheIK
	if noCache {
		opts = append(opts, appencryption.WithNoCache())
	}
	if c.SharedIK {
		opts = append(opts, appencryption.WithSharedIntermediateKeyCache(c.IKCap))
	}
	p := appencryption.NewCryptoPolicy(opts...)
	p.ExpireKeyAfter = c.Expire
	p.RevokeCheckInterval = c.Revoke
	p.CreateDatePrecision = c.Precision
	if !noCache {
		p.CacheSystemKeys = c.CacheSK
		p.CacheIntermediateKeys = c.CacheIK
	}
	p.SystemKeyCacheEvictionPolicy = c.SKPolicy
	p.IntermediateKeyCacheEvictionPolicy = c.IKPolicy
	p.SystemKeyCacheMaxSize = c.SKCap
	p.IntermediateKeyCacheMaxSize = c.IKCap
	if !c.SharedIK {
		p.SharedIntermediateKeyCache = false
	}
	p.CacheSessions = c.SessionCache
	if c.SessionCache {
		p.SessionCacheMaxSize = c.SessSize
		p.SessionCacheDuration = c.SessDur
		p.SessionCacheEvictionPolicy = c.SessPolicy
	}
	return p
}

// Proc is one incarnation of an application process.
type Proc struct {
	ID      int
	Cfg     PolicyCfg
	Factory *appencryption.SessionFactory
	Dead    bool          // crashed or cleanly closed
	Skew    time.Duration // constant offset of this process's wall clock from simulated time
	Crashed bool
	Sess    []*Sess
}

// Sess is one GetSession hand-out.
type Sess struct {
	N      int
	P      *Proc
	Part   string
	S      *appencryption.Session
	Closed bool
}

// Rec is a record produced by a successful encrypt (or by the foreign implementation).
type Rec struct {
	N         int
	Part      string
	Payload   []byte
	DRR       appencryption.DataRowRecord
	JSON      []byte
	IKID      string
	IKCreated int64
	Proc      int
	Op        *OpRec
	Foreign   bool
}

// World is one simulated deployment.
type World struct {
	S    *simrt.Sim
	T    *simrt.Tape
	Prop string

	Service, Product, Suffix string
	// ClockSkews, when non-empty, gives every process started afterwards a constant clock offset drawn
	// from it (clock skew between hosts).
	ClockSkews []time.Duration
	// NextProcUnsuffixed: processes started while this is set use a metastore without region suffix
	// (a mixed deployment: records written before suffixing was switched on).
	NextProcUnsuffixed bool
	// NextProcSuffix: processes started while this is set run in that region (their metastore reports
	// that suffix) - another region of a global table
	NextProcSuffix string

	Store *SimStore
	// Mem, when set, puts the repository's real MemoryMetastore (which hands out and keeps the caller's
	// pointers) behind the simulated RPC/fault layer; SimStore keeps the authoritative shadow copy.
	Mem    *persistence.MemoryMetastore
	KMS    *SimKMS
	Faults *FaultPlan
	Ledger *Ledger

	LatencyMenu []time.Duration
	// KMSRefusesRevoked: the KMS persistently refuses to unwrap a system key whose row is flagged revoked.
	KMSRefusesRevoked bool

	Procs     []*Proc
	Ops       []*OpRec
	Calls     []*CallRec
	AEADCalls []*AEADCall
	Recs      []*Rec
	Sessions  int
	InFlight  int // operations currently inside the SDK (concurrent engines)

	RetainBuffers bool
	lastKeyOut    []byte // the last 32-byte result of an AEAD decrypt (a key) and the operation it belongs to
	lastKeyOp     *OpRec
	// RealSecrets: 0 = tracking pure-Go factory, 1 = real protectedmemory, 2 = real memguard (behind a retaining wrapper)
	RealSecrets int
	Retained    []*Retained

	ScanLeaks bool
	// KeepEKRJSON records encoding/json's rendering of every key record the SDK stores (C18).
	KeepEKRJSON bool
	EKRJSON     []EKRDoc
	Emitted     int // byte strings scanned for leaks
	LogLines    int

	Viols []Violation

	kmsRequests     [][]byte
	patIndex        map[uint32][]leakPattern
	indexedSecrets  int
	indexedPayloads int
	sensPayloads    [][]byte

	prng    *simrt.Rand
	foreign *ForeignNode
}

// New creates an empty world inside a running simulation.
func New(s *simrt.Sim, prop string) *World {
	w := &World{S: s, T: s.Tape, Prop: prop, Service: "svc", Product: "prod"}
	w.Store = &SimStore{w: w, Rows: refimpl.Store{}, AtInsert: refimpl.Store{}}
	w.KMS = newSimKMS(w)
	w.Faults = newFaultPlan()
	w.Ledger = &Ledger{w: w}
	seed := uint64(s.Tape.Choose(1<<30, "drbg.seed"))
	w.prng = simrt.NewRand(seed ^ 0x5151)
	s.SetRand(simrt.NewRand(seed), nil)
	return w
}

// Violate records a violation of the property this world is checking.
func (w *World) Violate(rule, sig, format string, a ...any) {
	v := Violation{Prop: w.Prop, Rule: rule, Signature: w.Prop + "/" + sig, Msg: fmt.Sprintf(format, a...)}
	for _, o := range w.Viols {
		if o.Signature == v.Signature {
			return
		}
	}
	w.S.Logf("VIOLATION %s %s", v.Signature, v.Msg)
	w.Viols = append(w.Viols, v)
}

// SKID / IKID are the key ids the SDK is expected (by the documentation) to use.
func (w *World) SKID() string { return refimpl.SystemKeyID(w.Service, w.Product, w.Suffix) }
func (w *World) IKID(part string) string {
	return refimpl.IntermediateKeyID(part, w.Service, w.Product, w.Suffix)
}

// NewProc starts a process with the given policy.
func (w *World) NewProc(cfg PolicyCfg) *Proc {
	p := &Proc{ID: len(w.Procs), Cfg: cfg}
	w.Procs = append(w.Procs, p)
	if len(w.ClockSkews) > 0 {
		p.Skew = w.ClockSkews[w.T.Choose(len(w.ClockSkews), "proc.clock-skew")]
		w.S.SetSkew(procNode(p), p.Skew)
		if p.Skew != 0 {
			w.S.Probe("clock.skewed-process")
			w.Faults.Fired["clock.skew"]++
		}
	}
	defer w.onNode(p)()
	var ms appencryption.Metastore = &msView{w: w, proc: p.ID}
	if w.Suffix != "" && !w.NextProcUnsuffixed {
		ms = &msViewSuffixed{msView: msView{w: w, proc: p.ID}, suffix: w.Suffix}
		if w.NextProcSuffix != "" {
			ms = &msViewSuffixed{msView: msView{w: w, proc: p.ID}, suffix: w.NextProcSuffix}
		}
	}
	conf := &appencryption.Config{Service: w.Service, Product: w.Product, Policy: cfg.Build()}
	var sf securememory.SecretFactory = &ledgerFactory{w: w, proc: p.ID}
	switch w.RealSecrets {
	case 1:
		sf = &retainingFactory{w: w, proc: p.ID, inner: new(protectedmemory.SecretFactory)}
	case 2:
		sf = &retainingFactory{w: w, proc: p.ID, inner: new(memguard.SecretFactory)}
	}
	p.Factory = appencryption.NewSessionFactory(conf, ms, &kmsView{w: w, proc: p.ID},
		&aeadView{w: w, proc: p.ID, real: aead.NewAES256GCM()},
		appencryption.WithSecretFactory(sf))
	w.S.Logf("proc %d start %s", p.ID, cfg)
	return p
}

// procNode is the simulator's node id of a process: everything a process runs (its operations and
// the background tasks they start) reads that node's clock.
func procNode(p *Proc) int { return 1000 + p.ID }

// onNode makes the calling task run as process p until the returned function is called.
func (w *World) onNode(p *Proc) func() {
	cur := w.S.Cur()
	if p == nil || cur == nil {
		return func() {}
	}
	prev := cur.Node
	cur.Node = procNode(p)
	return func() { cur.Node = prev }
}

func (w *World) begin(kind string, p *Proc, part string) *OpRec {
	op := &OpRec{Idx: len(w.Ops), Kind: kind, Part: part, T0: w.S.Elapsed()}
	if p != nil {
		op.Proc = p.ID
		op.Skew = p.Skew
		op.offNode = w.onNode(p)
	} else {
		op.Proc = -1
	}
	w.Ops = append(w.Ops, op)
	w.S.Cur().Local = op
	w.InFlight++
	if w.InFlight > 1 {
		w.S.Probe("ops.overlapping")
	}
	w.S.Logf("op %d %s p%d %s", op.Idx, kind, op.Proc, part)
	return op
}

func (w *World) end(op *OpRec) {
	op.T1 = w.S.Elapsed()
	op.Done = true
	if op.offNode != nil {
		op.offNode()
	}
	w.S.Cur().Local = nil
	w.InFlight--
	res := "ok"
	if op.Err != nil {
		res = "err"
	}
	if op.Panic != "" {
		res = "panic"
	}
	w.S.Logf("op %d done %s", op.Idx, res)
}

// guard runs fn and converts a panic into op.Panic (the top SDK frame is kept for the signature).
func (w *World) guard(op *OpRec, fn func()) {
	defer func() {
		if r := recover(); r != nil {
			if ip, ok := r.(InjectedPanic); ok {
				// an injected fault that unwound the call: for the oracles the operation failed under a fault
				op.InjPanic = true
				op.Err = fmt.Errorf("%w: %v", errInjected, ip)
				return
			}
			op.Panic = fmt.Sprintf("%v @ %s", r, panicSite(string(debug.Stack())))
		}
	}()
	fn()
}

// panicSite extracts the innermost function of the code under test from a stack trace.
func panicSite(stack string) string {
	lines := strings.Split(stack, "\n")
	seenPanic := false
	for _, l := range lines {
		if strings.HasPrefix(l, "panic(") {
			seenPanic = true
			continue
		}
		if !seenPanic || strings.HasPrefix(l, "\t") {
			continue
		}
		if strings.Contains(l, "godaddy/asherah") {
			if i := strings.LastIndex(l, "("); i > 0 {
				l = l[:i]
			}
			if i := strings.LastIndex(l, "/"); i >= 0 {
				l = l[i+1:]
			}
			return l
		}
	}
	return "?"
}

// Open hands out a session.
func (w *World) Open(p *Proc, part string) (*Sess, error) {
	op := w.begin("open", p, part)
	var s *appencryption.Session
	w.guard(op, func() { s, op.Err = p.Factory.GetSession(part) })
	w.end(op)
	if op.Panic != "" {
		w.Violate("panic", "panic@"+op.Panic, "GetSession(%q) panicked: %s", part, op.Panic)
		return nil, fmt.Errorf("panic")
	}
	if op.Err != nil {
		return nil, op.Err
	}
	se := &Sess{N: w.Sessions, P: p, Part: part, S: s}
	w.Sessions++
	p.Sess = append(p.Sess, se)
	return se, nil
}

// CloseSess closes a session hand-out.
func (w *World) CloseSess(se *Sess) {
	if se.Closed {
		return
	}
	se.Closed = true
	op := w.begin("close-session", se.P, se.Part)
	w.guard(op, func() { op.Err = se.S.Close() })
	w.end(op)
	if op.Panic != "" {
		w.Violate("panic", "panic@"+op.Panic, "Session.Close panicked: %s", op.Panic)
	}
}

// CloseSessAgain calls Close on a session that has been closed already (callers that close in a
// defer and on an error path do this; it must stay harmless).
func (w *World) CloseSessAgain(se *Sess) {
	if !se.Closed {
		w.CloseSess(se)
	}
	op := w.begin("close-session-again", se.P, se.Part)
	w.guard(op, func() { op.Err = se.S.Close() })
	w.end(op)
	if op.Panic != "" {
		w.Violate("panic", "panic@"+op.Panic, "a second Session.Close panicked: %s", op.Panic)
	}
}

// CloseProc closes every session and the factory (clean shutdown).
func (w *World) CloseProc(p *Proc) {
	if p.Dead {
		return
	}
	for _, se := range p.Sess {
		w.CloseSess(se)
	}
	op := w.begin("close-factory", p, "")
	w.guard(op, func() { op.Err = p.Factory.Close() })
	w.end(op)
	if op.Panic != "" {
		w.Violate("panic", "panic@"+op.Panic, "SessionFactory.Close panicked: %s", op.Panic)
	}
	p.Dead = true
}

// Crash drops a process: nothing is closed, only the metastore survives.
func (w *World) Crash(p *Proc) {
	p.Dead, p.Crashed = true, true
	w.Faults.Fired["process.crash"]++
	for _, se := range p.Sess {
		se.Closed = true
	}
	for _, s := range w.Ledger.Secrets {
		if s.Proc == p.ID && !s.Closed {
			s.Closed = true // process image is gone
		}
	}
	w.S.Logf("proc %d crash", p.ID)
}

// Payload builds a payload of the given class; class>=2 payloads start with a unique marker.
func (w *World) Payload(class int) []byte {
	sizes := []int{0, 1, 16, 64, 4096, 1 << 20, 70000}
	n := sizes[class%len(sizes)]
	b := make([]byte, n)
	w.prng.Fill(b)
	if n >= 16 {
		copy(b, fmt.Sprintf("PL%06d:", len(w.Ops)))
	}
	return b
}

func copyDRR(d *appencryption.DataRowRecord) appencryption.DataRowRecord {
	out := appencryption.DataRowRecord{Data: cloneBytes(d.Data)}
	if d.Key != nil {
		k := *d.Key
		k.EncryptedKey = cloneBytes(d.Key.EncryptedKey)
		if d.Key.ParentKeyMeta != nil {
			pm := *d.Key.ParentKeyMeta
			k.ParentKeyMeta = &pm
		}
		out.Key = &k
	}
	return out
}

// SameDRR compares two records field by field.
func SameDRR(a, b *appencryption.DataRowRecord) bool {
	ja, _ := json.Marshal(a)
	jb, _ := json.Marshal(b)
	return string(ja) == string(jb)
}

// Encrypt runs Session.Encrypt and registers the record on success.
func (w *World) Encrypt(se *Sess, payload []byte) (*Rec, *OpRec) {
	orig := append([]byte(nil), payload...)
	// what the SDK gets is the caller's own buffer: on every second call one with room behind the
	// payload (a reused scratch buffer), pre-filled so that writes into that room are seen
	spare := 0
	if len(w.Ops)%2 == 0 {
		spare = 64
	}
	buf := make([]byte, len(orig)+spare)
	for i := range buf {
		buf[i] = 0x5a
	}
	copy(buf, orig)
	payload = buf[:len(orig)]
	op := w.begin("encrypt", se.P, se.Part)
	var drr *appencryption.DataRowRecord
	ctx, cancel := context.WithCancel(context.Background())
	op.Cancel = cancel
	w.guard(op, func() { drr, op.Err = se.S.Encrypt(ctx, payload) })
	cancel()
	w.end(op)
	if op.Panic != "" {
		w.Violate("panic", "panic@"+op.Panic, "Encrypt panicked: %s", op.Panic)
		return nil, op
	}
	if string(orig) != string(payload) {
		w.Violate("payload-modified", "payload-modified", "Encrypt modified the caller's payload (op %d)", op.Idx)
	}
	for _, b := range buf[len(orig):] {
		if b != 0x5a {
			w.Violate("payload-modified", "payload-buffer-overrun", "Encrypt wrote into the caller's buffer behind the payload (op %d)", op.Idx)
			break
		}
	}
	if drr != nil && op.Err == nil {
		// the caller reuses its buffer for the next message: the record it already holds must not change
		before := copyDRR(drr)
		for i := range buf {
			buf[i] = 0xa5
		}
		if !SameDRR(&before, drr) {
			w.Violate("record-aliases-payload", "record-shares-memory-with-payload", "the record returned by Encrypt shares memory with the caller's payload buffer: it changed when the caller reused that buffer (op %d)", op.Idx)
		}
	}
	if op.Err != nil {
		if drr != nil {
			w.Violate("record-with-error", "record-with-error", "Encrypt returned both a record and an error (op %d)", op.Idx)
		}
		return nil, op
	}
	if drr == nil || drr.Key == nil || drr.Key.ParentKeyMeta == nil {
		w.Violate("malformed-record", "malformed-record", "Encrypt returned success with an incomplete record (op %d)", op.Idx)
		return nil, op
	}
	r := &Rec{N: len(w.Recs), Part: se.Part, Payload: orig, DRR: copyDRR(drr), IKID: drr.Key.ParentKeyMeta.ID, IKCreated: drr.Key.ParentKeyMeta.Created, Proc: se.P.ID, Op: op}
	r.JSON, _ = json.Marshal(drr)
	w.Recs = append(w.Recs, r)
	if w.ScanLeaks {
		w.scanLeak("record", r.JSON, false)
		w.scanLeak("record.data", drr.Data, false)
		w.scanLeak("record.key", drr.Key.EncryptedKey, false)
	}
	return r, op
}

// Decrypt runs Session.Decrypt on (a private copy of) drr.
func (w *World) Decrypt(se *Sess, drr *appencryption.DataRowRecord) ([]byte, *OpRec) {
	arg := copyDRR(drr)
	op := w.begin("decrypt", se.P, se.Part)
	var out []byte
	ctx, cancel := context.WithCancel(context.Background())
	op.Cancel = cancel
	w.guard(op, func() { out, op.Err = se.S.Decrypt(ctx, arg) })
	cancel()
	w.end(op)
	if op.Panic != "" {
		w.Violate("panic", "panic@"+op.Panic, "Decrypt panicked: %s", op.Panic)
		return nil, op
	}
	if !SameDRR(&arg, drr) {
		w.Violate("record-modified", "record-modified", "Decrypt modified the caller's record (op %d)", op.Idx)
	}
	return out, op
}

// Advance moves the clock.
func (w *World) Advance(d time.Duration) {
	if d > 0 {
		w.Faults.Fired["clock.jump-forward"]++
	}
	w.S.Logf("advance %v", d)
	w.S.Advance(d)
}

// Drain lets background tasks (eviction loops, session removers) run until they are all blocked.
func (w *World) Drain() { w.S.Idle() }

// Snapshot returns a deep copy of the metastore contents.
func (w *World) Snapshot() refimpl.Store { return w.Store.Rows.Clone() }

// Now is the un-skewed simulated unix time.
func (w *World) Now() time.Time { return w.S.Global() }

// KeyPlain computes (through the reference implementation) the plaintext fingerprint of every
// key row in the store: fp -> "id@created".
func (w *World) KeyPlain() map[string]string {
	out := map[string]string{}
	for id, m := range w.Store.Rows {
		for c := range m {
			var b []byte
			var err error
			if strings.HasPrefix(id, "_SK_") {
				b, err = refimpl.UnwrapSK(w.Store.Rows, w.KMS, id, c)
			} else {
				b, err = refimpl.UnwrapIK(w.Store.Rows, w.KMS, id, c)
			}
			if err == nil {
				out[refimpl.FP(b)] = fmt.Sprintf("%s@%d", id, c)
			}
		}
	}
	return out
}

// SKMismatchFallbacks returns, per process, the created stamps of system keys that were looked up
// by an intermediate-key creation that lost its insert and then adopted a stored IK wrapped under
// a *different* system key than the one it had just used (the "system key just rotated" branch).
func (w *World) SKMismatchFallbacks() map[int]map[int64]bool {
	out := map[int]map[int64]bool{}
	type key struct {
		op *OpRec
		id string
	}
	lastStoreParent := map[key]int64{}
	failed := map[key]bool{}
	for _, c := range w.Calls {
		if c.Op == nil || !strings.HasPrefix(c.ID, "_IK_") {
			continue
		}
		k := key{c.Op, c.ID}
		switch c.Class {
		case "ms.store":
			lastStoreParent[k] = c.Parent
			failed[k] = c.Result != "ok"
		case "ms.latest":
			if failed[k] && c.Result == "ok" && c.Parent != 0 && c.Parent != lastStoreParent[k] {
				if out[c.Proc] == nil {
					out[c.Proc] = map[int64]bool{}
				}
				out[c.Proc][c.Parent] = true
			}
			failed[k] = false
		}
	}
	return out
}

// Corrupt overwrites (doc != nil) or removes (doc == nil) a metastore row: storage corruption.
func (st *SimStore) Corrupt(id string, created int64, doc []byte, kind string) {
	if st.Rows[id] == nil {
		return
	}
	if doc == nil {
		delete(st.Rows[id], created)
		delete(st.AtInsert[id], created)
	} else {
		st.Rows[id][created] = append([]byte(nil), doc...)
		st.AtInsert[id][created] = append([]byte(nil), doc...)
	}
	st.Log = append(st.Log, StoreEvent{By: "corrupt", Kind: kind, ID: id, Created: created, T: st.w.S.Elapsed(), Op: -1})
	st.w.Faults.Fired["corrupt:"+kind]++
	st.w.S.Logf("corrupt %s %s@%d", kind, id, created)
}

type missingLoader struct{ nilnil bool }

func (m missingLoader) Load(_ context.Context, _ interface{}) (*appencryption.DataRowRecord, error) {
	if m.nilnil {
		return nil, nil
	}
	return nil, fmt.Errorf("no such record")
}

// LoadMissing calls Session.Load with a loader that does not have the record (first reporting an
// error, then reporting "not found" as (nil, nil)).
func (w *World) LoadMissing(se *Sess) *OpRec {
	var last *OpRec
	for _, nn := range []bool{false, true} {
		op := w.begin("load-missing", se.P, se.Part)
		w.guard(op, func() { _, op.Err = se.S.Load(context.Background(), "k", missingLoader{nilnil: nn}) })
		w.end(op)
		if op.Panic != "" {
			w.Violate("panic", "panic@"+op.Panic, "Session.Load of a missing record (loader returned nil,nil=%v) panicked: %s", nn, op.Panic)
			return op
		}
		if op.Err == nil {
			return op
		}
		last = op
	}
	return last
}

func cloneBytes(b []byte) []byte {
	if b == nil {
		return nil
	}
	out := make([]byte, len(b))
	copy(out, b)
	return out
}

// EKRDoc is the SDK's own JSON serialization of a key record it stored.
type EKRDoc struct {
	ID      string
	Created int64
	JSON    []byte
	EKR     appencryption.EnvelopeKeyRecord
}

// UseMemoryMetastore switches the world to the real in-memory metastore variant.
func (w *World) UseMemoryMetastore() { w.Mem = persistence.NewMemoryMetastore() }

// AliasedRowChanges compares every record held by the real in-memory metastore with the
// authoritative shadow copy taken at insert time (plus operator revocations): a difference means
// a stored record was modified through a pointer the SDK was handed.
func (w *World) AliasedRowChanges() []string {
	var out []string
	if w.Mem == nil {
		return nil
	}
	for id, m := range w.Store.Rows {
		for c, doc := range m {
			e := w.Mem.Envelopes[id][c]
			if e == nil {
				out = append(out, fmt.Sprintf("%s@%d removed", id, c))
				continue
			}
			if string(fromEKR(e)) != string(doc) {
				out = append(out, fmt.Sprintf("%s@%d modified: now %s, stored as %s", id, c, fromEKR(e), doc))
			}
		}
	}
	sortStringsW(out)
	return out
}

func sortStringsW(a []string) {
	for i := 1; i < len(a); i++ {
		for j := i; j > 0 && a[j] < a[j-1]; j-- {
			a[j], a[j-1] = a[j-1], a[j]
		}
	}
}
